/-
  TFV.Model.Tree — prefix-encoded GP trees (`base/_tree.py`, index helpers of `utils/__init__.py`,
  GP crossovers / mutations of `utils/crossovers.py`, `utils/mutations.py`) for C08 and C09.

  A tree is a flat list of nodes in prefix order; a node is `(symbol, recorded arity)`.
  The specification side is the rose tree `RT`.  Random choices of operators are explicit
  arguments.  Core Lean only.
-/
namespace TFV.Tree

/-! ### specification: rose trees -/

inductive RT where
  | node (sym : Nat) (kids : List RT)
deriving Repr, Inhabited

abbrev Node := Nat × Nat          -- (symbol, recorded arity)
abbrev Flat := List Node

mutual
def flat : RT → Flat
  | .node s ks => (s, ks.length) :: flatL ks
def flatL : List RT → Flat
  | [] => []
  | t :: ts => flat t ++ flatL ts
end

mutual
def RT.size : RT → Nat
  | .node _ ks => 1 + sizeL ks
def sizeL : List RT → Nat
  | [] => 0
  | t :: ts => t.size + sizeL ts
end

mutual
/-- depth of the deepest node (root = 0): `get_max_level` -/
def RT.depth : RT → Nat
  | .node _ ks => depthL ks
/-- 0 for no kids, else 1 + max depth of the kids -/
def depthL : List RT → Nat
  | [] => 0
  | t :: ts => max (t.depth + 1) (depthL ts)
end

mutual
/-- levels of all nodes in prefix order, the root at level `d`: `get_levels` -/
def levelsRT (d : Nat) : RT → List Nat
  | .node _ ks => d :: levelsL (d + 1) ks
def levelsL (d : Nat) : List RT → List Nat
  | [] => []
  | t :: ts => levelsRT d t ++ levelsL d ts
end

mutual
/-- the meaning of a tree: each symbol applied to the values of its argument subtrees in order -/
def evalRT {V : Type} (interp : Nat → List V → V) : RT → V
  | .node s ks => interp s (evalL interp ks)
def evalL {V : Type} (interp : Nat → List V → V) : List RT → List V
  | [] => []
  | t :: ts => evalRT interp t :: evalL interp ts
end

def arities (l : Flat) : List Nat := l.map (·.2)

/-! ### the index helpers as coded -/

/-- `find_end_subtree_from_i`'s loop: `pending` open argument slots, returns how many nodes are
    consumed until none is open (or the array ends). -/
def scan : Nat → List Nat → Nat
  | 0, _ => 0
  | _ + 1, [] => 0
  | n + 1, a :: rest => 1 + scan (n + a) rest

/-- `find_end_subtree_from_i(index, n_args)` : index one past the subtree rooted at `index` -/
def endSub (i : Nat) (ar : List Nat) : Nat := i + scan 1 (ar.drop i)

/-- `find_id_args_from_i(index, n_args)`: root positions of the argument subtrees -/
def argsIdsAux (ar : List Nat) : Nat → Nat → List Nat
  | 0, _ => []
  | k + 1, pos => pos :: argsIdsAux ar k (endSub pos ar)

def argsIds (i : Nat) (ar : List Nat) : List Nat := argsIdsAux ar (ar.getD i 0) (i + 1)

/-- `get_levels_tree_from_i`: the two-stack loop; stack entries are
    (argument slots still open, level of those arguments) -/
def levelsAux : List (Nat × Nat) → List Nat → List Nat
  | [], _ => []
  | _, [] => []
  | (c, lv) :: st, a :: rest =>
    let st' := if c - 1 = 0 then st else (c - 1, lv) :: st
    let st'' := if a > 0 then (a, lv + 1) :: st' else st'
    lv :: levelsAux st'' rest

def levels (origin : Nat) (ar : List Nat) : List Nat := levelsAux [(1, 0)] (ar.drop origin)

def listMax : List Nat → Nat := fun l => l.foldl max 0

/-- `get_max_level` -/
def depth (l : Flat) : Nat := listMax (levels 0 (arities l))

/-- `subtree(index)` -/
def subtree (l : Flat) (i : Nat) : Flat := (l.take (endSub i (arities l))).drop i

/-- `concat(index, other)`: replace the subtree rooted at `index` by `other` -/
def concat (l : Flat) (i : Nat) (other : Flat) : Flat :=
  l.take i ++ other ++ l.drop (endSub i (arities l))

/-- well-formedness of the arity sequence: every proper prefix leaves an open slot, the whole
    list closes exactly the one initial slot -/
def wfAux : Nat → List Nat → Bool
  | 0, [] => true
  | 0, _ :: _ => false
  | _ + 1, [] => false
  | p + 1, a :: rest => wfAux (p + a) rest

/-- a well-formed prefix expression over the arity signature `arity` -/
def WF (arity : Nat → Nat) (l : Flat) : Prop :=
  wfAux 1 (arities l) = true ∧ ∀ n ∈ l, n.2 = arity n.1

def wfb (arity : Nat → Nat) (l : Flat) : Bool :=
  wfAux 1 (arities l) && l.all fun n => n.2 == arity n.1

/-! ### evaluation and printing as coded: one reversed pass with a stack -/

/-- one step of `for node in reversed(nodes)`: pop `arity` values (the first popped is the first
    argument), push the result -/
def stackStep {V : Type} (interp : Nat → List V → V) (st : List V) (n : Node) : List V :=
  interp n.1 (st.take n.2) :: st.drop n.2

/-- `Tree.__call__` / `Tree.__str__` (with `interp` = apply / format): `pack[0]` -/
def evalStack {V : Type} (interp : Nat → List V → V) (l : Flat) : Option V :=
  (l.reverse.foldl (stackStep interp) []).head?

/-- `set_terminals`: rebind terminal symbols (arity 0) through `ρ`, on a copy -/
def rebind (ρ : Nat → Option Nat) (l : Flat) : Flat :=
  l.map fun n => if n.2 = 0 then (match ρ n.1 with | some s => (s, n.2) | none => n) else n

/-- `Tree.__eq__`: same length and the same names position-wise -/
def eqTree (a b : Flat) : Bool := a.length == b.length && (a.map (·.1) == b.map (·.1))

/-! ### common region as coded -/

/-- `find_first_difference_between_two(a, b)`: first index where they differ, else the last index
    of the shorter -/
def firstDiff : List Nat → List Nat → Nat
  | a :: as, b :: bs =>
    if a ≠ b then 0
    else match as, bs with
      | [], _ => 0
      | _, [] => 0
      | _, _ => 1 + firstDiff as bs
  | _, _ => 0

structure CR2 where
  c1 : List Nat := []
  c2 : List Nat := []
  b1 : List Nat := []
  b2 : List Nat := []
deriving Repr, DecidableEq

/-- `common_region_two_trees` (the `while True` loop, with fuel) -/
def commonRegion2Aux (n1 n2 : List Nat) : Nat → Nat → Nat → CR2 → CR2
  | 0, _, _, acc => acc
  | fuel + 1, i1, i2, acc =>
    let (i1', i2', acc') :=
      if i1 < n1.length ∧ i2 < n2.length then
        let e := firstDiff (n1.drop i1) (n2.drop i2)
        (i1 + e, i2 + e,
          { acc with c1 := acc.c1 ++ (List.range (e + 1)).map (· + i1),
                     c2 := acc.c2 ++ (List.range (e + 1)).map (· + i2) })
      else (i1, i2, acc)
    if n1.length - 1 > i1' ∨ n2.length - 1 > i2' then
      commonRegion2Aux n1 n2 fuel (endSub i1' n1) (endSub i2' n2)
        { acc' with b1 := acc'.b1 ++ [i1'], b2 := acc'.b2 ++ [i2'] }
    else acc'

def commonRegion2 (n1 n2 : List Nat) : CR2 :=
  commonRegion2Aux n1 n2 (n1.length + n2.length + 1) 0 0 {}

/-- state of the k-tree `common_region`: for each tree the start of its remaining index range,
    its common list and its border list -/
structure CRk where
  starts : List Nat
  common : List (List Nat)
  border : List (List Nat)
deriving Repr, DecidableEq

/-- the inner `for i in range(iters)` scan: returns the offsets visited (all common) and whether
    it stopped on an arity mismatch -/
def crkScan (ars : List (List Nat)) (starts : List Nat) : Nat → Nat → Nat × Bool
  | 0, i => (i, false)
  | fuel + 1, i =>
    let col := (ars.zip starts).map fun (ar, s) => ar.getD (s + i) 0
    let first := col.headD 0
    if col.all (· == first) then crkScan ars starts fuel (i + 1) else (i + 1, true)

/-- `common_region(trees)` on the arity arrays (the `while not terminate` loop, with fuel) -/
def commonRegionKAux (ars : List (List Nat)) : Nat → CRk → CRk
  | 0, st => st
  | fuel + 1, st =>
    let remaining := (ars.zip st.starts).map fun (ar, s) => ar.length - s
    let iters := remaining.foldl min (remaining.headD 0)
    let (visited, broke) := crkScan ars st.starts iters 0
    let common := (st.common.zip st.starts).map fun (c, s) => c ++ (List.range visited).map (· + s)
    let border :=
      if broke then (st.border.zip st.starts).map fun (b, s) => b ++ [s + visited - 1] else st.border
    -- advance every tree past the subtree rooted at its last common index; stop at the first
    -- tree that is exhausted
    let rec adv : List (List Nat) → List Nat → List Nat → Bool → List Nat × Bool
      | ar :: ars', s :: ss, acc, false =>
        let right := endSub (s + visited - 1) ar
        if ar.length ≤ right then (acc.reverse ++ right :: ss, true)
        else adv ars' ss (right :: acc) false
      | _, ss, acc, t => (acc.reverse ++ ss, t)
    let (starts', term) := adv ars st.starts [] false
    let st' : CRk := { starts := starts', common := common, border := border }
    if term then st' else commonRegionKAux ars fuel st'

def commonRegionK (ars : List (List Nat)) : CRk :=
  commonRegionKAux ars ((ars.map List.length).foldl (· + ·) 1)
    { starts := ars.map fun _ => 0, common := ars.map fun _ => [], border := ars.map fun _ => [] }

/-- `Tree.get_common_region`: the two-tree version for one other tree, the k-tree version else -/
def commonRegion (ars : List (List Nat)) : List (List Nat) × List (List Nat) :=
  match ars with
  | [a, b] => let r := commonRegion2 a b; ([r.c1, r.c2], [r.b1, r.b2])
  | _ => let r := commonRegionK ars; (r.common, r.border)

/-! ### specification of the common region on rose trees -/

def RT.sym : RT → Nat | .node s _ => s
def RT.kids : RT → List RT | .node _ ks => ks
def RT.arity (t : RT) : Nat := t.kids.length

/-- positions (in each tree's own prefix numbering) of the `c`-th kids, given the roots' positions -/
def kidPos (t : RT) (pos c : Nat) : Nat := pos + 1 + sizeL (t.kids.take c)

/-- the maximal common top part: a tuple of positions (one per tree) is common when all its
    ancestors have equal arities in all trees; it is a border tuple when the arities there differ.
    Returns the tuples in prefix order. Fuel = size of the first tree (enough for every input). -/
def commonSpec : Nat → List RT → List Nat → List (List Nat) × List (List Nat)
  | 0, _, _ => ([], [])
  | fuel + 1, ts, pos =>
    let a := (ts.headD default).arity
    if ts.all (·.arity == a) then
      let rec go : Nat → List (List Nat) × List (List Nat) → List (List Nat) × List (List Nat)
        | 0, acc => acc
        | c + 1, acc =>
          let r := commonSpec fuel (ts.map fun t => t.kids.getD (a - 1 - c) default)
                    ((ts.zip pos).map fun (t, p) => kidPos t p (a - 1 - c))
          go c (acc.1 ++ r.1, acc.2 ++ r.2)
      go a ([pos], [])
    else ([pos], [pos])

/-! ### GP operators with explicit random choices -/

/-- `standard_crossover`: points `p` in `a`, `q` in `b`; `coin` = which parent receives -/
def standardX (a b : Flat) (p q : Nat) (coin : Bool) (maxLevel : Nat) : Flat :=
  if coin then
    let off := concat b q (subtree a p)
    if depth off > maxLevel then b else off
  else
    let off := concat a p (subtree b q)
    if depth off > maxLevel then a else off

/-- `one_point_crossoverGP`: `k` indexes the common region of the two parents -/
def onePointX (a b : Flat) (k : Nat) (coin : Bool) : Flat :=
  let r := commonRegion2 (arities a) (arities b)
  let p := r.c1.getD k 0
  let q := r.c2.getD k 0
  if coin then concat b q (subtree a p) else concat a p (subtree b q)

/-- `uniform_crossoverGP` and its variants (they differ only in how `pool` is drawn):
    walk the common region of all parents; at a border position copy the whole subtree of the
    chosen parent, elsewhere copy its node -/
def uniformX (ps : List Flat) (pool : List Nat) : Flat :=
  let (common, border) := commonRegion (ps.map arities)
  let c0 := common.headD []
  let b0 := border.headD []
  ((List.range c0.length).map fun i =>
    let j := pool.getD i 0
    let id := (common.getD j []).getD i 0
    let pj := ps.getD j []
    if b0.contains (c0.getD i 0) then subtree pj id else [pj.getD id (0, 0)]).flatten

/-- `point_mutation`: node `i` replaced by a symbol of the same arity -/
def pointMut (l : Flat) (i newSym : Nat) : Flat := l.set i (newSym, (l.getD i (0, 0)).2)

/-- `growing_mutation`: subtree `i` replaced by a freshly grown tree -/
def growMut (l : Flat) (i : Nat) (grown : Flat) : Flat := concat l i grown

/-- `swap_mutation`: the argument subtrees of node `i` permuted by `perm`
    (`perm[k]` = which old argument lands in slot k) -/
def swapMut (l : Flat) (i : Nat) (perm : List Nat) : Flat :=
  let ids := argsIds i (arities l)
  l.take (i + 1) ++ (perm.map fun k => subtree l (ids.getD k 0)).flatten ++
    l.drop (endSub i (arities l))

/-- `shrink_mutation`: subtree `i` replaced by its `k`-th argument subtree -/
def shrinkMut (l : Flat) (i k : Nat) : Flat :=
  concat l i (subtree l ((argsIds i (arities l)).getD k 0))

/-- `full_growing_method` / `growing_method`: the stack loop driven by a stream of node choices.
    `choices` supplies (symbol, arity) pairs; the code forces a terminal at `maxLevel`
    (modelled: a choice with arity > 0 at `maxLevel` is replaced by the terminal `term`).
    Stack entries as in `levelsAux`. `none` = the stream ran out. -/
def growAux (maxLevel : Nat) (term : Nat) : List (Nat × Nat) → List Node → Flat → Option Flat
  | [], _, acc => some acc.reverse
  | _ :: _, [], _ => none
  | (c, lv) :: st, ch :: rest, acc =>
    let st' := if c - 1 = 0 then st else (c - 1, lv) :: st
    let n : Node := if lv = maxLevel ∧ ch.2 > 0 then (term, 0) else ch
    let st'' := if n.2 > 0 then (n.2, lv + 1) :: st' else st'
    growAux maxLevel term st'' rest (n :: acc)

def growInit (maxLevel term : Nat) (choices : List Node) : Option Flat :=
  growAux maxLevel term [(1, 0)] choices []

end TFV.Tree
