/-
  TFV.Model.NpQ — the whole-array numpy vocabulary used by the basic benchmark functions of
  `benchmarks/_optproblems.py` (C20), on rectangular arrays of rationals: floats are read as elements of
  a field (exact arithmetic; rounding is not modelled), transcendental functions are parameters.
  A numpy shape error is `none`. Core Lean only. The reading of each call is part of the trusted base and
  is exercised against numpy by the C20 check on every run.
-/
namespace TFV.NpQ

structure Mat where
  ncols : Nat
  rows : List (List Rat)
deriving Repr

def Mat.WF (m : Mat) : Prop := ∀ r ∈ m.rows, r.length = m.ncols

/-- an elementwise function of one array (`x ** 2`, `c * x`, `x - c`, `np.cos(…)`) -/
def map (f : Rat → Rat) (m : Mat) : Mat := { ncols := m.ncols, rows := m.rows.map fun r => r.map f }

/-- an elementwise operation of two arrays of the same shape (broadcasting is not modelled) -/
def zip (f : Rat → Rat → Rat) (a b : Mat) : Option Mat :=
  if a.ncols = b.ncols ∧ a.rows.length = b.rows.length then
    some { ncols := a.ncols, rows := List.zipWith (List.zipWith f) a.rows b.rows }
  else none

/-- `np.sum(M, axis=-1)` -/
def sumRows (m : Mat) : List Rat := m.rows.map fun r => r.foldr (· + ·) 0

/-- `M[:, j]`: column `j` as a vector (IndexError when the array has no such column: `none`) -/
def col (m : Mat) (j : Nat) : Option (List Rat) :=
  if j < m.ncols then some (m.rows.map fun r => r.getD j 0) else none

/-- `M - v.reshape(1, -1)`: the row vector `v` subtracted from every row. numpy broadcasts a vector of length `ncols` or of length 1, and
    a ONE-column `M` against a vector of any length (the result then has `len(v)` columns - none for an empty `v`); any other
    combination is a shape error (`none`) -/
def subRow (m : Mat) (v : List Rat) : Option Mat :=
  if v.length = m.ncols then some { ncols := m.ncols, rows := m.rows.map fun r => List.zipWith (· - ·) r v }
  else if v.length = 1 then some { ncols := m.ncols, rows := m.rows.map fun r => r.map fun a => a - v.headD 0 }
  else if m.ncols = 1 then some { ncols := v.length, rows := m.rows.map fun r => v.map fun b => r.headD 0 - b }
  else none

/-- `np.kron(v, np.array([1, 1]))` for an integer vector: every entry twice -/
def kron11 : List Nat → List Nat
  | [] => []
  | i :: is => i :: i :: kron11 is

/-- `v.reshape(-1, 2)` of an index vector: consecutive entries paired (an odd length is a reshape error; the trailing entry is dropped here,
    the index vectors this is used on have even length: `C20_src_pair_indexes_length`) -/
def pairsOf : List Nat → List (Nat × Nat)
  | a :: b :: rest => (a, b) :: pairsOf rest
  | _ => []

/-- `np.prod(M, axis=-1)` -/
def prodRows (m : Mat) : List Rat := m.rows.map fun r => r.foldr (· * ·) 1

/-- an elementwise function of the array and a row vector broadcast over the columns (`g(M / v)` with `v` of length `ncols`, as in
    `np.cos(x / sqrt_i)`): entry `(r, i)` becomes `f i M[r][i]`; `f` stands for `a ↦ g(a / v[i])` -/
def mapIdxCols (f : Nat → Rat → Rat) (m : Mat) : Mat := { ncols := m.ncols, rows := m.rows.map fun r => r.mapIdx f }

def accRow : Rat → List Rat → List Rat
  | _, [] => []
  | acc, a :: as => (acc + a) :: accRow (acc + a) as

/-- `np.add.accumulate(M, axis=-1)` -/
def accumulate (m : Mat) : Mat := { ncols := m.ncols, rows := m.rows.map (accRow 0) }

/-- `M.T[:-1]` (read back through `.T`): all columns but the last -/
def colsDropLast (m : Mat) : Mat := { ncols := m.ncols - 1, rows := m.rows.map fun r => r.take (m.ncols - 1) }

/-- `M.T[1:]`: all columns but the first -/
def colsFrom1 (m : Mat) : Mat := { ncols := m.ncols - 1, rows := m.rows.map fun r => r.drop 1 }

/-- an elementwise operation of two 1-D arrays of the same length -/
def vzip (f : Rat → Rat → Rat) (a b : List Rat) : Option (List Rat) :=
  if a.length = b.length then some (List.zipWith f a b) else none

/-- `np.mean(v)` of a non-empty vector (the mean of an empty array is NaN: `none`) -/
def vmean (v : List Rat) : Option Rat :=
  if v.length = 0 then none else some (v.foldl (· + ·) 0 / (v.length : Rat))

/-- `v < t` for a vector and a scalar: a boolean mask -/
def ltMask (v : List Rat) (t : Rat) : List Bool := v.map fun a => decide (a < t)

/-- `np.sum(mask)` -/
def countTrue (m : List Bool) : Nat := (m.filter id).length

def scatterAux : List Rat → List Bool → List Rat → List Rat
  | _ :: xs, true :: ms, v :: vs => v :: scatterAux xs ms vs
  | x :: xs, false :: ms, vs => x :: scatterAux xs ms vs
  | xs, _, _ => xs

/-- `x[mask] = vals` for a boolean mask as long as `x` (IndexError otherwise) and as many values as the mask has True entries
    (the one case of broadcasting, a single value for several positions, is not modelled) -/
def maskScatter (x : List Rat) (m : List Bool) (vals : List Rat) : Option (List Rat) :=
  if m.length = x.length ∧ vals.length = countTrue m then some (scatterAux x m vals) else none

/-- `d[key] += c` for a table read as its value vector and a key read as its position (KeyError when absent: `none`) -/
def addAt (v : List Rat) (i : Nat) (c : Rat) : Option (List Rat) :=
  if i < v.length then some (v.set i (v.getD i 0 + c)) else none

/-- `x.clip(lo, hi)` for one entry (`lo ≤ hi`) -/
def clip (lo hi x : Rat) : Rat := if x < lo then lo else if hi < x then hi else x

/-- `dict(zip(d.keys(), v))`: the new table has the keys of `d`, so `v` must supply exactly one value per key (zip would silently drop
    the surplus: a shorter table - `none`) -/
def sameLen (d v : List Rat) : Option (List Rat) := if v.length = d.length then some v else none

/-- `np.zeros((M.shape[0], 1))`: a column of zeros with one entry per row of `M` -/
def zeroCol (m : Mat) : Mat := { ncols := 1, rows := m.rows.map fun _ => [0] }

/-- the loop `for i in range(A.shape[0]): R[i] = np.max(A[i])` on a one-column `R` with as many rows as `A`: row `i` of `R` becomes the
    maximum of row `i` of `A` (ValueError for an empty row: `none`) -/
def rowMaxCol (r a : Mat) : Option Mat :=
  if r.ncols = 1 ∧ r.rows.length = a.rows.length ∧ a.rows.all (fun row => !row.isEmpty) then
    some { ncols := 1, rows := a.rows.map fun row => match row with | [] => [0] | x :: xs => [xs.foldl max x] }
  else none

/-- `M - C` for a one-column `C` with as many rows as `M` (broadcast along the rows) -/
def subCol (m c : Mat) : Option Mat :=
  if c.ncols = 1 ∧ c.rows.length = m.rows.length then
    some { ncols := m.ncols, rows := List.zipWith (fun row cr => row.map fun a => a - cr.headD 0) m.rows c.rows }
  else none

/-- the loop `for j in range(v.shape[0]): if v[j] == 0: v[j] = 1` -/
def zeroToOne (v : List Rat) : List Rat := v.map fun a => if a = 0 then 1 else a

/-- `(M.T / v).T`: row `i` of `M` divided by `v[i]` (`len(v)` = number of rows) -/
def divRows (m : Mat) (v : List Rat) : Option Mat :=
  if v.length = m.rows.length then
    some { ncols := m.ncols, rows := List.zipWith (fun row d => row.map fun a => a / d) m.rows v }
  else none

/-- `keys[index]` for an index array: every index must be in range (IndexError otherwise: `none`) -/
def gatherN (keys idx : List Nat) : Option (List Nat) :=
  if idx.all (fun i => decide (i < keys.length)) then some (idx.map fun i => keys.getD i 0) else none

/-- `np.isinf(x)`: in the rational reading every value is finite -/
def isinf (_ : Rat) : Bool := false

/-- `np.isinf(v).astype(np.float64)`: the indicator of the infinite entries - there are none -/
def visinf (v : List Rat) : List Rat := v.map fun _ => 0

/-- `np.sum(v)` -/
def vsum (v : List Rat) : Rat := v.foldl (· + ·) 0

/-- `v.max()` / `v.min()` of a non-empty vector (ValueError on an empty one: `none`) -/
def vmax : List Rat → Option Rat
  | [] => none
  | x :: xs => some (xs.foldl max x)

def vmin : List Rat → Option Rat
  | [] => none
  | x :: xs => some (xs.foldl min x)

end TFV.NpQ
