/-
  TFV.Model.Imp — the tiny imperative vocabulary the source translator (harness/extract/py2lean.py)
  targets: bounded `while`, `for i in range(lo, hi)` with early exit, Python-style array reads
  and writes on `List Int`.  The translator turns a numba kernel of /repo into a state-passing Lean
  definition over these helpers on every run; `TFV/Properties/Src*.lean` then proves that the
  regenerated definition equals the hand-written model the property theorems are about.
  Core Lean only.
-/
namespace TFV.Imp

/-- `while cond: body`, at most `fuel` iterations -/
def whileN {σ : Type} : Nat → (σ → Bool) → (σ → σ) → σ → σ
  | 0, _, _, s => s
  | n + 1, cond, body, s => if cond s then whileN n cond body (body s) else s

/-- `for i in range(lo, hi): body`, skipping the remaining iterations once `stop` holds
    (`break`) -/
def forRange {σ : Type} (lo hi : Int) (stop : σ → Bool) (body : Int → σ → σ) (s : σ) : σ :=
  (List.range (hi - lo).toNat).foldl (fun s (k : Nat) => if stop s then s else body (lo + (k : Int)) s) s

/-- `a[i]` -/
def geti (a : List Int) (i : Int) : Int := a.getD i.toNat 0

/-- `a[i] = v` -/
def seti (a : List Int) (i : Int) (v : Int) : List Int := a.set i.toNat v

/-- `len(a)` -/
def leni (a : List Int) : Int := (a.length : Int)

/-- `0 ≤ i < len(a)`: the access `a[i]` is in range (negative indices are not used by the kernels
    except the literal `a[-1]`, which is `last`) -/
def inb (a : List Int) (i : Int) : Bool := decide (0 ≤ i) && decide (i < (a.length : Int))

/-- row access `m[i]` of a matrix, and its range check -/
def getrow (m : List (List Int)) (i : Int) : List Int := m.getD i.toNat []
def inbM (m : List (List Int)) (i : Int) : Bool := decide (0 ≤ i) && decide (i < (m.length : Int))

/-- `a[-1]` -/
def last (a : List Int) : Int := a.getLastD 0

/-- `a[-1] = v` -/
def setlast (a : List Int) (v : Int) : List Int := a.set (a.length - 1) v

/-- insertion into a sorted list / `sorted(a)` -/
def insertSorted (x : Int) : List Int → List Int
  | [] => [x]
  | y :: ys => if x ≤ y then x :: y :: ys else y :: insertSorted x ys
def sorted (a : List Int) : List Int := a.foldr insertSorted []

/-- `a[lo:hi]` and `a[lo:]` for non-negative bounds (Python clamps bounds beyond the end) -/
def slice (a : List Int) (lo hi : Int) : List Int := (a.take hi.toNat).drop lo.toNat
def dropFrom (a : List Int) (lo : Int) : List Int := a.drop lo.toNat

/-- `np.argmax` (index of the first maximum) -/
def argmaxAux : Int → Nat → Nat → List Int → Nat
  | _, bi, _, [] => bi
  | b, bi, i, x :: xs => if b < x then argmaxAux x i (i + 1) xs else argmaxAux b bi (i + 1) xs
def argmax : List Int → Int
  | [] => 0
  | x :: xs => (argmaxAux x 0 1 xs : Nat)

/-- `a[idx]` for an index array, and whether every index is in range -/
def gather (a idx : List Int) : List Int := idx.map fun i => geti a i
def allInb (a idx : List Int) : Bool := idx.all fun i => inb a i

/-- `m[idx]` (rows) for an index array, and whether every index is in range -/
def gatherM (m : List (List Int)) (idx : List Int) : List (List Int) := idx.map fun i => getrow m i
def allInbM (m : List (List Int)) (idx : List Int) : Bool := idx.all fun i => inbM m i

/-- `np.split(a, idx)`: the pieces `a[:i0], a[i0:i1], …, a[ik:]` -/
def npSplitFrom (a : List Int) (start : Nat) : List Int → List (List Int)
  | [] => [a.drop start]
  | i :: is => ((a.take i.toNat).drop start) :: npSplitFrom a i.toNat is
def npSplit (a : List Int) (idx : List Int) : List (List Int) := npSplitFrom a 0 idx

/-- `a >= b` elementwise (a 0/1 mask) and `x[mask] = y[mask]` for arrays of one length (the translator flags other lengths) -/
def maskGE (a b : List Int) : List Int := List.zipWith (fun x y => if y ≤ x then (1 : Int) else 0) a b
def maskSet : List Int → List Int → List Int → List Int
  | x :: xs, m :: ms, y :: ys => (if m != 0 then y else x) :: maskSet xs ms ys
  | xs, _, _ => xs

/-- `a > b` elementwise, and `x[mask]`: the entries of `x` at which the mask is set -/
def maskGT (a b : List Int) : List Int := List.zipWith (fun x y => if y < x then (1 : Int) else 0) a b
def maskGet : List Int → List Int → List Int
  | x :: xs, m :: ms => if m != 0 then x :: maskGet xs ms else maskGet xs ms
  | _, _ => []

/-- `np.arange(len(mask))[mask]`: the positions at which a 0/1 mask is set -/
def whereNZAux : Nat → List Int → List Int
  | _, [] => []
  | i, m :: ms => if m != 0 then (i : Int) :: whereNZAux (i + 1) ms else whereNZAux (i + 1) ms
def whereNZ (mask : List Int) : List Int := whereNZAux 0 mask

/-- elementwise `a + b`, `a - b` of equally long arrays (the translator flags different lengths) -/
def vadd (a b : List Int) : List Int := List.zipWith (· + ·) a b
def vsub (a b : List Int) : List Int := List.zipWith (· - ·) a b

/-- `max(a)` of a non-empty array (the translator flags the empty one) -/
def maxArr : List Int → Int
  | [] => 0
  | x :: xs => xs.foldl max x

/-- `sorted(zip(a, b), key=lambda p: -p[1])`: the pairs in descending order of the second component
    (stable, like Python's sort), as its two component arrays -/
def insDescSnd (p : Int × Int) : List (Int × Int) → List (Int × Int)
  | [] => [p]
  | q :: qs => if q.2 ≤ p.2 then p :: q :: qs else q :: insDescSnd p qs
def sortDescSnd (a b : List Int) : List (Int × Int) := (a.zip b).foldr insDescSnd []
def sortDescSndA (a b : List Int) : List Int := (sortDescSnd a b).map (·.1)
def sortDescSndB (a b : List Int) : List Int := (sortDescSnd a b).map (·.2)

/-- truthiness of an integer (`while possible_steps:`) -/
def truthy (x : Int) : Bool := x != 0

end TFV.Imp
