/-
  TFV.Model.Bench — benchmark problems (C20): `benchmarks/_optproblems.py`, `CEC2005.py`.
  (a) the shift-table bookkeeping: which shift vector a call `(problem, D)` effectively uses,
      both as the code does it now (a per-call copy of the pristine table) and as an in-place
      update of a shared table (the defect that was repaired — kept as a negative witness);
  (b) the basic functions over `Rat`, with the transcendental functions as parameters of which
      only the bounds used are assumed (`cos ≤ 1`, `cos 0 = 1`).
  Core Lean only.
-/
namespace TFV.Bench

abbrev Vec := List Rat

/-! ### (a) shift tables -/

/-- write `v` at the indices in `[lo, hi)` that satisfy `p` -/
def fillWhere (t : Vec) (lo hi : Nat) (p : Nat → Bool) (v : Rat) : Vec :=
  t.mapIdx fun i x => if lo ≤ i ∧ i < hi ∧ p i then v else x

/-- F5 (Schwefel 2.6): `o[floor(3D/4)-1 : D] = 100; o[: ceil(D/4)] = -100` -/
def f5Write (t : Vec) (D : Nat) : Vec :=
  fillWhere (fillWhere t (3 * D / 4 - 1) D (fun _ => true) 100) 0 ((D + 3) / 4) (fun _ => true) (-100)

/-- F8 (shifted rotated Ackley): `o[:D:2] = -32` -/
def f8Write (t : Vec) (D : Nat) : Vec := fillWhere t 0 D (fun i => i % 2 == 0) (-32)

/-- F20: `o1[1 : D/2 : 2] = 5` -/
def f20Write (t : Vec) (D : Nat) : Vec := fillWhere t 1 (D / 2) (fun i => i % 2 == 1) 5

/-- the effective shift vector with the copy discipline: a function of the pristine table and D -/
def effCopy (write : Vec → Nat → Vec) (pristine : Vec) (D : Nat) : Vec := (write pristine D).take D

/-- the effective shift vector after a history of calls that update ONE shared table in place -/
def effInPlace (write : Vec → Nat → Vec) (pristine : Vec) (history : List Nat) (D : Nat) : Vec :=
  (write (history.foldl write pristine) D).take D

/-- one call under the copy discipline: the shared table is left alone -/
def stepCopy (write : Vec → Nat → Vec) (t : Vec) (D : Nat) : Vec × Vec := (t, effCopy write t D)

/-- one call updating the shared table in place -/
def stepInPlace (write : Vec → Nat → Vec) (t : Vec) (D : Nat) : Vec × Vec := (write t D, (write t D).take D)

/-- the table after a history of calls, and the shift vector each call used -/
def runCalls (step : Vec → Nat → Vec × Vec) : Vec → List Nat → Vec × List Vec
  | t, [] => (t, [])
  | t, D :: rest =>
    let (t', v) := step t D
    let (tf, vs) := runCalls step t' rest
    (tf, v :: vs)

/-! ### (b) basic functions -/

def sum (l : Vec) : Rat := l.foldr (· + ·) 0

def sphere (x : Vec) : Rat := sum (x.map fun a => a * a)

/-- prefix sums `np.add.accumulate` -/
def accumulate : Rat → Vec → Vec
  | _, [] => []
  | acc, a :: as => (acc + a) :: accumulate (acc + a) as

def schwefel12 (x : Vec) : Rat := sum ((accumulate 0 x).map fun a => a * a)

/-- high-conditioned elliptic with positive condition weights `c i` (= 10^6^(i/(D-1))) -/
def elliptic (c : Nat → Rat) (x : Vec) : Rat := sum (x.mapIdx fun i a => c i * (a * a))

def rosenbrock : Vec → Rat
  | a :: b :: rest => 100 * ((a * a - b) * (a * a - b)) + (a - 1) * (a - 1) + rosenbrock (b :: rest)
  | _ => 0

/-- Rastrigin with `cs a` standing for `cos(2πa)` -/
def rastrigin (cs : Rat → Rat) (x : Vec) : Rat := sum (x.map fun a => a * a - 10 * cs a + 10)

def prod (l : Vec) : Rat := l.foldr (· * ·) 1

/-- Griewank with `cs i a` standing for `cos(a / sqrt(i+1))` -/
def griewank (cs : Nat → Rat → Rat) (x : Vec) : Rat :=
  sum (x.map fun a => a * a / 4000) - prod (x.mapIdx fun i a => cs i a) + 1

/-- Weierstrass: `Σ_i Σ_k a^k cs k (x_i + 1/2) - D Σ_k a^k cs k (1/2)` with `cs k z = cos(2π b^k z)` -/
def weierstrass (ak : List Rat) (cs : Nat → Rat → Rat) (x : Vec) : Rat :=
  sum (x.map fun xi => sum (ak.mapIdx fun k a => a * cs k (xi + 1 / 2)))
    - (x.length : Rat) * sum (ak.mapIdx fun k a => a * cs k (1 / 2))

/-- Ackley: `-a·E(-b·R(Σx²/D)) - E(Σ cs x_i / D) + a + E 1` with `E` standing for exp, `R` for sqrt,
    `cs z` for `cos(2πz)` -/
def ackley (E R : Rat → Rat) (cs : Rat → Rat) (a b : Rat) (x : Vec) : Rat :=
  let D : Rat := (x.length : Rat)
  a + E 1 - a * E (- b * R (sum (x.map fun z => z * z) / D)) - E (sum (x.map cs) / D)

/-- expanded Scaffer F6 on one pair: `0.5 + (sn² - 0.5) / (1 + 0.001 s)²` with `s = x² + y²` and
    `sn2` standing for `sin²(√s)` -/
def scafferPair (sn2 : Rat → Rat) (x y : Rat) : Rat :=
  let s := x * x + y * y
  1 / 2 + (sn2 s - 1 / 2) / ((1 + s / 1000) * (1 + s / 1000))

/-- the cyclic pairing `(x1,x2), (x2,x3), …, (xD,x1)` -/
def cyclicPairs (x : Vec) : List (Rat × Rat) := x.zip (x.drop 1 ++ x.take 1)

def scaffer (sn2 : Rat → Rat) (x : Vec) : Rat := sum ((cyclicPairs x).map fun p => scafferPair sn2 p.1 p.2)

/-- Schwefel 2.6: `max_i |A_i x - A_i o|` given the rows' values `ax i = A_i·x`, `ao i = A_i·o` -/
def absR (q : Rat) : Rat := if q < 0 then -q else q
def schwefel26 (ax ao : Vec) : Rat := (List.zipWith (fun p q => absR (p - q)) ax ao).foldl max 0

/-- Schwefel 2.13: `Σ_i (A_i - B_i(x))²` -/
def schwefel213 (A B : Vec) : Rat := sum (List.zipWith (fun p q => (p - q) * (p - q)) A B)

/-- F8F2: Griewank of Rosenbrock on the cyclic pairs (one-dimensional Griewank `g`) -/
def f8f2 (g : Rat → Rat) (x : Vec) : Rat := sum ((cyclicPairs x).map fun p => g (rosenbrock [p.1, p.2]))

/-- shifted problem: `f(x - o) + bias` -/
def vsub (x o : Vec) : Vec := List.zipWith (· - ·) x o
def shifted (f : Vec → Rat) (o : Vec) (bias : Rat) (x : Vec) : Rat := f (vsub x o) + bias

/-- hybrid composition: `Σ w_i (fit_i + bias_i) / Σ w_i + f_bias` -/
def compose (w fit bias : Vec) (fbias : Rat) : Rat :=
  sum (List.zipWith (· * ·) (w.map (· / sum w)) (List.zipWith (· + ·) fit bias)) + fbias

/-- the damping `w_i := w_i (1 - max_w^10)` for the non-maximal weights -/
def damp (w : Vec) (mx : Rat) : Vec := w.map fun wi => if wi = mx then wi else wi * (1 - mx ^ 10)

/-- a population is evaluated row by row -/
def evalRows (f : Vec → Rat) (X : List Vec) : List Rat := X.map f

end TFV.Bench
