/-
  TFV.Model.Metrics — `utils/_metrics.py` (C19): the loops as coded, and separately the textbook
  specifications. Labels are `Nat` (label-encoded classes 0..c-1); values are `Rat`.
  `sqrt` / `log` do not exist on `Rat`: rmse is modelled through its square (mse), the cross
  entropy takes the logarithm as a parameter. Core Lean only.
-/
namespace TFV.Metrics

/-! ### helpers shared by code and spec -/

def sumR : List Rat → Rat := fun l => l.foldl (· + ·) 0
def mean (l : List Rat) : Rat := sumR l / (l.length : Rat)

/-- `len(np.unique(y_true))` -/
def nClasses (yt : List Nat) : Nat := yt.eraseDups.length

/-- `a[i] += 1` (numba arrays; an out-of-range index is outside the admissible domain) -/
def bump (a : List Nat) (i : Nat) : List Nat := a.set i (a.getD i 0 + 1)

/-! ### the loops as coded -/

/-- recall_score: TP[y_true] on a hit, FN[y_true] on a miss -/
def recallLoop : List (Nat × Nat) → List Nat × List Nat → List Nat × List Nat
  | [], acc => acc
  | (t, p) :: rest, (tp, fn) =>
    if t = p then recallLoop rest (bump tp t, fn) else recallLoop rest (tp, bump fn t)

/-- precision_score: TP[y_true] on a hit, (the array the code calls false_negatives)[y_predict] on a miss -/
def precisionLoop : List (Nat × Nat) → List Nat × List Nat → List Nat × List Nat
  | [], acc => acc
  | (t, p) :: rest, (tp, fp) =>
    if t = p then precisionLoop rest (bump tp t, fp) else precisionLoop rest (tp, bump fp p)

/-- f1_score: TP[y_true] on a hit; FN[y_true] and FP[y_predict] on a miss -/
def f1Loop : List (Nat × Nat) → List Nat × List Nat × List Nat → List Nat × List Nat × List Nat
  | [], acc => acc
  | (t, p) :: rest, (tp, fn, fp) =>
    if t = p then f1Loop rest (bump tp t, fn, fp) else f1Loop rest (tp, bump fn t, bump fp p)

def zeros (n : Nat) : List Nat := List.replicate n 0

/-- per-class score `tp / (tp + other)`, 0 when tp = 0 -/
def ratio (tp other : Nat) : Rat := if tp = 0 then 0 else (tp : Rat) / ((other + tp : Nat) : Rat)

def recall (yt yp : List Nat) : Rat :=
  let n := nClasses yt
  let (tp, fn) := recallLoop (yt.zip yp) (zeros n, zeros n)
  mean ((List.range n).map fun c => ratio (tp.getD c 0) (fn.getD c 0))

def precision (yt yp : List Nat) : Rat :=
  let n := nClasses yt
  let (tp, fp) := precisionLoop (yt.zip yp) (zeros n, zeros n)
  mean ((List.range n).map fun c => ratio (tp.getD c 0) (fp.getD c 0))

def f1Class (tp fn fp : Nat) : Rat :=
  if tp = 0 then 0
  else
    let pr : Rat := (tp : Rat) / ((fp + tp : Nat) : Rat)
    let rc : Rat := (tp : Rat) / ((fn + tp : Nat) : Rat)
    2 * (pr * rc) / (pr + rc)

def f1 (yt yp : List Nat) : Rat :=
  let n := nClasses yt
  let (tp, fn, fp) := f1Loop (yt.zip yp) (zeros n, zeros n, zeros n)
  mean ((List.range n).map fun c => f1Class (tp.getD c 0) (fn.getD c 0) (fp.getD c 0))

/-- accuracy_score -/
def accuracy (yt yp : List Nat) : Rat :=
  mean ((yt.zip yp).map fun (t, p) => if t = p then 1 else 0)

/-- confusion_matrix: `confusion[true, pred] += 1` on an n×n zero matrix -/
def confLoop : List (Nat × Nat) → List (List Nat) → List (List Nat)
  | [], m => m
  | (t, p) :: rest, m => confLoop rest (m.set t (bump (m.getD t []) p))

def confusion (yt yp : List Nat) : List (List Nat) :=
  let n := nClasses yt
  confLoop (yt.zip yp) (List.replicate n (zeros n))

/-! ### textbook specifications -/

def cnt (pairs : List (Nat × Nat)) (f : Nat × Nat → Bool) : Nat := (pairs.filter f).length

def specTP (yt yp : List Nat) (c : Nat) : Nat := cnt (yt.zip yp) fun (t, p) => t == c && p == c
def specFN (yt yp : List Nat) (c : Nat) : Nat := cnt (yt.zip yp) fun (t, p) => t == c && p != c
def specFP (yt yp : List Nat) (c : Nat) : Nat := cnt (yt.zip yp) fun (t, p) => t != c && p == c
def specConf (yt yp : List Nat) (i j : Nat) : Nat := cnt (yt.zip yp) fun (t, p) => t == i && p == j

def specRecall (yt yp : List Nat) : Rat :=
  mean ((List.range (nClasses yt)).map fun c => ratio (specTP yt yp c) (specFN yt yp c))

def specPrecision (yt yp : List Nat) : Rat :=
  mean ((List.range (nClasses yt)).map fun c => ratio (specTP yt yp c) (specFP yt yp c))

def specF1 (yt yp : List Nat) : Rat :=
  mean ((List.range (nClasses yt)).map fun c => f1Class (specTP yt yp c) (specFN yt yp c) (specFP yt yp c))

def specAccuracy (yt yp : List Nat) : Rat :=
  (cnt (yt.zip yp) fun (t, p) => t == p : Nat) / (yt.zip yp).length

/-! ### regression metrics -/

/-- mean squared error (`root_mean_square_error` is its square root) -/
def mse (yt yp : List Rat) : Rat := mean ((yt.zip yp).map fun (a, b) => (a - b) * (a - b))

/-- coefficient_determination, with the coded substitute 1e-10 for a zero total sum -/
def r2 (yt yp : List Rat) : Rat :=
  let m := mean yt
  let tot := sumR (yt.map fun a => (a - m) * (a - m))
  let tot' := if tot = 0 then (1 : Rat) / 10000000000 else tot
  let res := sumR ((yt.zip yp).map fun (a, b) => (a - b) * (a - b))
  1 - res / tot'

/-- clip to [1e-7, 1 - 1e-7] -/
def clip7 (x : Rat) : Rat :=
  let lo : Rat := 1 / 10000000
  let hi : Rat := 1 - lo
  if x < lo then lo else if hi < x then hi else x

/-- categorical_crossentropy as coded (targets AND outputs clipped), `lg` = natural logarithm -/
def cce (lg : Rat → Rat) (target output : List (List Rat)) : Rat :=
  mean ((target.zip output).map fun (t, o) =>
    sumR ((t.zip o).map fun (a, b) => - (clip7 a) * lg (clip7 b)))

/-- every 2-D / 3-D batch variant is the row-wise loop over its scalar version -/
def batch {α β γ : Type} (f : α → β → γ) (yt : α) (rows : List β) : List γ := rows.map (f yt)

end TFV.Metrics
