/-
  TFV.Model.BinOps — binary-string GA operators (`utils/crossovers.py`, `utils/mutations.py`
  flip_mutation) and their wiring in GeneticAlgorithm / SelfCGA / PDPGA / SHAGA (C06).
  Random choices are explicit arguments.  Genes are `Int` (the code stores int8 0/1 and flips
  with `1 - x`).  Core Lean only.
-/
namespace TFV.BinOps

abbrev Gene := Int
abbrev Ind := List Gene

def Binary (x : Ind) : Prop := ∀ g ∈ x, g = 0 ∨ g = 1
def binaryb (x : Ind) : Bool := x.all fun g => g == 0 || g == 1

/-- gene `i` of parent `p` (0 outside; never used on admissible inputs) -/
def gene (ps : List Ind) (p i : Nat) : Gene := (ps.getD p []).getD i 0

/-- length of the first parent: `len(individs[0])` -/
def len (ps : List Ind) : Nat := (ps.headD []).length

/-- `empty_crossover`: a copy of the first parent -/
def emptyX (ps : List Ind) : Ind := ps.headD []

/-- `one_point_crossover`: `coin` chooses the receiving parent, loci `i > cut` come from the other -/
def onePoint (ps : List Ind) (cut : Nat) (coin : Bool) : Ind :=
  (List.range (len ps)).map fun i =>
    if coin then (if i > cut then gene ps 1 i else gene ps 0 i)
    else (if i > cut then gene ps 0 i else gene ps 1 i)

/-- `two_point_crossover`: loci in `[min c0 c1, max c0 c1]` (both inclusive) come from the other -/
def twoPoint (ps : List Ind) (c0 c1 : Nat) (coin : Bool) : Ind :=
  let lo := min c0 c1
  let hi := max c0 c1
  (List.range (len ps)).map fun i =>
    if coin then (if lo ≤ i ∧ i ≤ hi then gene ps 1 i else gene ps 0 i)
    else (if lo ≤ i ∧ i ≤ hi then gene ps 0 i else gene ps 1 i)

/-- `uniform_crossover`, `uniform_proportional_crossover`, `uniform_rank_crossover`:
    locus i from parent `choice[i]` (they differ only in how `choice` is distributed) -/
def uniformX (ps : List Ind) (choice : List Nat) : Ind :=
  (List.range (len ps)).map fun i => gene ps (choice.getD i 0) i

/-- `uniform_tournament_crossover`: per locus a pair of parents is drawn, the fitter of the pair
    (first on ties, `argmax`) gives the gene -/
def tourWinner (fitness : List Int) (pr : Nat × Nat) : Nat :=
  if fitness.getD pr.1 0 < fitness.getD pr.2 0 then pr.2 else pr.1

def uniformTour (ps : List Ind) (fitness : List Int) (pairs : List (Nat × Nat)) : Ind :=
  (List.range (len ps)).map fun i => gene ps (tourWinner fitness (pairs.getD i (0, 0))) i

/-- `binomialGA` / `binomial` (generic in the gene type): locus i from the mutant iff
    `mask[i]` (= `flip_coin(CR)`) or `i = j` (the forced locus) -/
def binomial {α : Type} (x m : List α) (mask : List Bool) (j : Nat) : List α :=
  (x.zip m).mapIdx fun i (p : α × α) => if mask.getD i false || i == j then p.2 else p.1

/-- `flip_mutation`: bit i flipped iff `mask[i]` -/
def flip (x : Ind) (mask : List Bool) : Ind :=
  x.mapIdx fun i g => if mask.getD i false then 1 - g else g

/-- `flip_coin(proba)` per locus: `U < proba` with `U ∈ [0,1)` -/
def flipMask (us : List Rat) (rate : Rat) : List Bool := us.map fun u => decide (u < rate)

/-- mutation rate actually passed: presets are `k / str_len`, custom rates are constant -/
def rateOf (k : Rat) (isConstant : Bool) (offspringLen : Nat) : Rat :=
  if isConstant then k else k / (offspringLen : Rat)

inductive XKind | empty | onePoint | twoPoint | uniform | uniformTour
deriving DecidableEq, Repr

/-- the random choices of one crossover application -/
structure XChoice where
  cut : Nat := 0
  c1 : Nat := 0
  coin : Bool := false
  choice : List Nat := []
  pairs : List (Nat × Nat) := []
deriving Repr

def cross (k : XKind) (ps : List Ind) (fitness : List Int) (c : XChoice) : Ind :=
  match k with
  | .empty => emptyX ps
  | .onePoint => onePoint ps c.cut c.coin
  | .twoPoint => twoPoint ps c.cut c.c1 c.coin
  | .uniform => uniformX ps c.choice
  | .uniformTour => uniformTour ps fitness c.pairs

/-- admissible choices, mirroring what the code draws -/
def XChoice.ok (k : XKind) (c : XChoice) (nParents strLen : Nat) : Prop :=
  match k with
  | .empty => True
  | .onePoint => c.cut < strLen
  | .twoPoint => c.cut < strLen ∧ c.c1 < strLen ∧ c.cut ≠ c.c1
  | .uniform => c.choice.length = strLen ∧ ∀ j ∈ c.choice, j < nParents
  | .uniformTour => c.pairs.length = strLen ∧ ∀ p ∈ c.pairs, p.1 < nParents ∧ p.2 < nParents

/-- `_get_new_individ_g`: selection (indices into the population) → crossover → mutation -/
def newIndivid (pop : List Ind) (selected : List Nat) (k : XKind) (fitness : List Int)
    (c : XChoice) (mask : List Bool) : Ind :=
  flip (cross k (selected.map fun i => pop.getD i []) (selected.map fun i => fitness.getD i 0) c) mask

/-- SHAGA's `_get_new_individ_g`: binomialGA(individ, second_parent, CR) then flip_mutation(MR) -/
def shagaIndivid (x second : Ind) (crMask : List Bool) (j : Nat) (mutMask : List Bool) : Ind :=
  flip (binomial x second crMask j) mutMask

end TFV.BinOps
