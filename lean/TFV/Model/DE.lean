/-
  TFV.Model.DE — real-coded differential evolution (C07):
  `optimizers/_differentialevolution.py` (bounds_control, _get_new_individ_g, greedy replacement),
  `optimizers/_shade.py` (bounds_control_mean), the donor strategies of `utils/mutations.py`
  and `binomial` of `utils/crossovers.py`. Exact arithmetic on `Rat`; index choices explicit.
  Core Lean only.
-/
namespace TFV.DE

abbrev Vec := List Rat

def vadd (a b : Vec) : Vec := List.zipWith (· + ·) a b
def vsub (a b : Vec) : Vec := List.zipWith (· - ·) a b
def smul (f : Rat) (a : Vec) : Vec := a.map (f * ·)

/-- row `i` of the population (empty outside; admissible indices are in range) -/
def row (pop : List Vec) (i : Nat) : Vec := pop.getD i []

/-! ### donor strategies: linear forms in named index choices -/

def best1 (best : Vec) (pop : List Vec) (F : Rat) (r : List Nat) : Vec :=
  vadd best (smul F (vsub (row pop (r.getD 0 0)) (row pop (r.getD 1 0))))

def rand1 (pop : List Vec) (F : Rat) (r : List Nat) : Vec :=
  vadd (row pop (r.getD 2 0)) (smul F (vsub (row pop (r.getD 0 0)) (row pop (r.getD 1 0))))

def currentToBest1 (cur best : Vec) (pop : List Vec) (F : Rat) (r : List Nat) : Vec :=
  vadd (vadd cur (smul F (vsub best cur))) (smul F (vsub (row pop (r.getD 0 0)) (row pop (r.getD 1 0))))

/-- as repaired: towards the best (`best - x_r1`) -/
def randToBest1 (best : Vec) (pop : List Vec) (F : Rat) (r : List Nat) : Vec :=
  vadd (vadd (row pop (r.getD 0 0)) (smul F (vsub best (row pop (r.getD 0 0)))))
    (smul F (vsub (row pop (r.getD 1 0)) (row pop (r.getD 2 0))))

def best2 (best : Vec) (pop : List Vec) (F : Rat) (r : List Nat) : Vec :=
  vadd (vadd best (smul F (vsub (row pop (r.getD 0 0)) (row pop (r.getD 1 0)))))
    (smul F (vsub (row pop (r.getD 2 0)) (row pop (r.getD 3 0))))

def rand2 (pop : List Vec) (F : Rat) (r : List Nat) : Vec :=
  vadd (vadd (row pop (r.getD 4 0)) (smul F (vsub (row pop (r.getD 0 0)) (row pop (r.getD 1 0)))))
    (smul F (vsub (row pop (r.getD 2 0)) (row pop (r.getD 3 0))))

/-- `current_to_pbest_1_archive(_p_min)`: `pb` an index among the p-best, `r1` into the
    population, `r2` into population ∪ archive -/
def currentToPbest1 (cur : Vec) (pop popArchive : List Vec) (F : Rat) (pb r1 r2 : Nat) : Vec :=
  vadd (vadd cur (smul F (vsub (row pop pb) cur))) (smul F (vsub (row pop r1) (row popArchive r2)))

inductive Strategy | best1 | rand1 | currentToBest1 | randToBest1 | best2 | rand2
deriving DecidableEq, Repr

def Strategy.arity : Strategy → Nat
  | .best1 => 2 | .rand1 => 3 | .currentToBest1 => 2 | .randToBest1 => 3 | .best2 => 4 | .rand2 => 5

def donor (s : Strategy) (cur best : Vec) (pop : List Vec) (F : Rat) (r : List Nat) : Vec :=
  match s with
  | .best1 => best1 best pop F r
  | .rand1 => rand1 pop F r
  | .currentToBest1 => currentToBest1 cur best pop F r
  | .randToBest1 => randToBest1 best pop F r
  | .best2 => best2 best pop F r
  | .rand2 => rand2 pop F r

/-! ### binomial crossover and boundary repair -/

/-- `binomial(individ, mutant, CR)` -/
def binomial (x m : Vec) (mask : List Bool) (j : Nat) : Vec :=
  (x.zip m).mapIdx fun i (p : Rat × Rat) => if mask.getD i false || i == j then p.2 else p.1

/-- one coordinate of `bounds_control` -/
def clamp (l r x : Rat) : Rat := if x < l then l else if r < x then r else x

/-- `bounds_control(array, left, right)` -/
def boundsControl (x left right : Vec) : Vec :=
  (x.zip (left.zip right)).map fun (xi, (l, r)) => clamp l r xi

/-- one coordinate of `bounds_control_mean`: midpoint of the violated border and the PARENT -/
def clampMean (l r parent x : Rat) : Rat :=
  if x < l then (l + parent) / 2 else if r < x then (r + parent) / 2 else x

/-- `bounds_control_mean(array, parent, left, right)` -/
def boundsControlMean (x parent left right : Vec) : Vec :=
  (x.zip (parent.zip (left.zip right))).map fun (xi, (p, (l, r))) => clampMean l r p xi

def InBox (left right x : Vec) : Prop :=
  x.length = left.length ∧ ∀ i (h : i < x.length) (hl : i < left.length) (hr : i < right.length),
    left[i] ≤ x[i] ∧ x[i] ≤ right[i]

def inBoxb (left right x : Vec) : Bool :=
  x.length == left.length && ((x.zip (left.zip right)).all fun (xi, (l, r)) => decide (l ≤ xi) && decide (xi ≤ r))

/-- `DifferentialEvolution._get_new_individ_g` / jDE (per-individual F, CR) -/
def trialDE (s : Strategy) (cur best : Vec) (pop : List Vec) (F : Rat) (r : List Nat)
    (mask : List Bool) (j : Nat) (left right : Vec) : Vec :=
  boundsControl (binomial cur (donor s cur best pop F r) mask j) left right

/-- `SHADE._get_new_individ_g` -/
def trialSHADE (cur : Vec) (pop popArchive : List Vec) (F : Rat) (pb r1 r2 : Nat)
    (mask : List Bool) (j : Nat) (left right : Vec) : Vec :=
  boundsControlMean (binomial cur (currentToPbest1 cur pop popArchive F pb r1 r2) mask j) cur left right

/-- greedy replacement of one slot: the trial replaces the parent iff `accept` (= trial fitness ≥
    parent fitness; any predicate for the box invariant) -/
def greedy (pop trials : List Vec) (accept : List Bool) : List Vec :=
  (pop.zip trials).mapIdx fun i (p : Vec × Vec) => if accept.getD i false then p.2 else p.1

end TFV.DE
