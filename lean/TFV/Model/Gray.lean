/-
  TFV.Model.Gray — `utils/transformations.py`: SamplingGrid / GrayCode (C10).
  Bits are MSB first as in `bit_to_int` (dot product with reversed powers). Exact arithmetic on
  `Rat`; `np.rint` is round-half-to-even. Core Lean only.
-/
namespace TFV.Gray

def b2n (b : Bool) : Nat := if b then 1 else 0

/-- `bit_to_int` (MSB first) -/
def bitsToNat (bs : List Bool) : Nat := bs.foldl (fun acc b => 2 * acc + b2n b) 0

/-- `int_to_bit` with a fixed width `w` (MSB first): column i is `n & 2^(w-1-i) > 0` -/
def natToBits (w n : Nat) : List Bool := (List.range w).map fun i => n.testBit (w - 1 - i)

/-- `gray_to_bit`: `np.logical_xor.accumulate` (prefix xor) -/
def grayToBinAux (acc : Bool) : List Bool → List Bool
  | [] => []
  | g :: gs => (acc ^^ g) :: grayToBinAux (acc ^^ g) gs

def grayToBin (g : List Bool) : List Bool := grayToBinAux false g

/-- `bit_to_gray`: first bit, then xor of neighbours -/
def binToGrayAux (prev : Bool) : List Bool → List Bool
  | [] => []
  | b :: bs => (prev ^^ b) :: binToGrayAux b bs

def binToGray (b : List Bool) : List Bool := binToGrayAux false b

def hamming : List Bool → List Bool → Nat
  | a :: as, b :: bs => (if a = b then 0 else 1) + hamming as bs
  | _, _ => 0

/-- one variable of a fitted grid -/
structure Var where
  left : Rat
  right : Rat
  bits : Nat
deriving Repr

/-- `_culc_h_from_num_bits` -/
def Var.h (v : Var) : Rat := (v.right - v.left) / ((2 : Rat) ^ v.bits - 1)

/-- `_decode` then `left + h * int` for one variable -/
def Var.decode (v : Var) (gray : Bool) (bs : List Bool) : Rat :=
  v.left + v.h * (bitsToNat (if gray then grayToBin bs else bs) : Nat)

/-- `np.rint`: round half to even -/
def rint (q : Rat) : Int :=
  let f := q.floor
  let r := q - f
  if r < 1 / 2 then f
  else if 1 / 2 < r then f + 1
  else if f % 2 = 0 then f else f + 1

/-- `_float_to_bit` for one variable (with the variable's own width) -/
def Var.encode (v : Var) (gray : Bool) (x : Rat) : List Bool :=
  let k := (rint ((x - v.left) / v.h)).toNat
  let b := natToBits v.bits k
  if gray then binToGray b else b

/-- `np.split(population, cumsum(bits)[:-1], axis=1)` for one row -/
def splitBits : List Nat → List Bool → List (List Bool)
  | [], _ => []
  | w :: ws, row => row.take w :: splitBits ws (row.drop w)

/-- `transform` of one row -/
def transform (vars : List Var) (gray : Bool) (row : List Bool) : List Rat :=
  (vars.zip (splitBits (vars.map (·.bits)) row)).map fun (v, bs) => v.decode gray bs

/-- `inverse_transform` of one row -/
def inverse (vars : List Var) (gray : Bool) (xs : List Rat) : List Bool :=
  ((vars.zip xs).map fun (v, x) => v.encode gray x).flatten

/-- least `b` with `q ≤ 2^b`: `ceil(log2 q)` for q ≥ 1 (fuel-bounded search) -/
def clog2Aux (q : Rat) : Nat → Nat → Nat
  | 0, b => b
  | fuel + 1, b => if q ≤ (2 : Rat) ^ b then b else clog2Aux q fuel (b + 1)

def clog2 (q : Rat) : Nat := clog2Aux q (q.ceil.toNat + 1) 0

/-- `_culc_num_bits_from_h`: `ceil(log2((right-left)/h + 1))` -/
def bitsFromH (left right h : Rat) : Nat := clog2 ((right - left) / h + 1)

end TFV.Gray
