/-
  TFV.Model.Np — the small part of numpy's whole-array vocabulary that the vectorised kernels of
  `utils/transformations.py` use (C10), as total functions on rectangular integer arrays.
  A numpy error (shape mismatch) is `none`. Integers are unbounded (the code's int64 does not wrap
  for fewer than 63 bits per variable; overflow is not modelled). Core Lean only.
  The reading of each numpy call given here is part of the trusted base; it is exercised by the
  behavioural correspondence of C10 on every run.
-/
namespace TFV.Np

/-- a 2-D integer array: `ncols` is `shape[1]` (known even when there are no rows) -/
structure Mat where
  ncols : Nat
  rows : List (List Int)
deriving Repr, DecidableEq

/-- numpy arrays are rectangular -/
def Mat.WF (m : Mat) : Prop := ∀ r ∈ m.rows, r.length = m.ncols

/-- truth value of an array element (`np.logical_xor` reads non-zero as True) -/
def truthy (x : Int) : Bool := x != 0

/-- `.astype(np.byte)` of a boolean -/
def b2i (b : Bool) : Int := if b then 1 else 0

/-- `2 ** np.arange(n, dtype=np.int64)` -/
def pow2Arange (n : Nat) : List Int := (List.range n).map fun i => (2 : Int) ^ i

/-- `v[:n]` -/
def takeL (n : Nat) (v : List Int) : List Int := v.take n

/-- `np.flip(v)` -/
def flip (v : List Int) : List Int := v.reverse

def dotRow : List Int → List Int → Int
  | a :: as, b :: bs => a * b + dotRow as bs
  | _, _ => 0

/-- `np.dot(M, v)` for a 2-D `M` and a 1-D `v`: needs `len(v) == M.shape[1]` -/
def dot (m : Mat) (v : List Int) : Option (List Int) :=
  if v.length = m.ncols then some (m.rows.map fun r => dotRow r v) else none

def xorAccumRow (acc : Bool) : List Int → List Int
  | [] => []
  | g :: gs => b2i (acc ^^ truthy g) :: xorAccumRow (acc ^^ truthy g) gs

/-- `np.logical_xor.accumulate(M, axis=-1).astype(np.byte)`: prefix xor along every row -/
def logicalXorAccumulate (m : Mat) : Mat :=
  { ncols := m.ncols, rows := m.rows.map (xorAccumRow false) }

/-- `M[:, :-1]` -/
def colsDropLast (m : Mat) : Mat :=
  { ncols := m.ncols - 1, rows := m.rows.map fun r => r.take (m.ncols - 1) }

/-- `M[:, 1:]` -/
def colsFrom1 (m : Mat) : Mat :=
  { ncols := m.ncols - 1, rows := m.rows.map fun r => r.drop 1 }

/-- `M[:, 0].reshape(-1, 1)`: needs at least one column -/
def col0 (m : Mat) : Option Mat :=
  if 0 < m.ncols then some { ncols := 1, rows := m.rows.map fun r => r.take 1 } else none

def xorRow : List Int → List Int → List Int
  | a :: as, b :: bs => b2i (truthy a ^^ truthy b) :: xorRow as bs
  | _, _ => []

/-- `np.logical_xor(A, B)` for two arrays of the same shape (broadcasting is not modelled) -/
def logicalXor (a b : Mat) : Option Mat :=
  if a.ncols = b.ncols ∧ a.rows.length = b.rows.length then
    some { ncols := a.ncols, rows := (a.rows.zip b.rows).map fun (x, y) => xorRow x y }
  else none

/-- `np.hstack([A, B])`: needs the same number of rows -/
def hstack (a b : Mat) : Option Mat :=
  if a.rows.length = b.rows.length then
    some { ncols := a.ncols + b.ncols, rows := (a.rows.zip b.rows).map fun (x, y) => x ++ y }
  else none

/-- `np.int8((x & p) > 0)` for non-negative `x`, `p` (codes and powers of two; negative operands - two's complement -
    are not modelled) -/
def andPos (x p : Int) : Int := b2i (decide (0 < (x.toNat &&& p.toNat)))

/-- `np.empty(shape=(r, c))`: the contents are unspecified; modelled as zeros - the theorems only use arrays every column of
    which has been assigned since -/
def empty (r c : Nat) : Mat := { ncols := c, rows := List.replicate r (List.replicate c 0) }

/-- the loop `for i, p in enumerate(V): M[:, i] = np.int8((X & p) > 0)`: column `i` of `M` becomes the test of bit `p` of
    every entry of `X`. No iteration when `V` is empty; IndexError when `V` has more entries than `M` has columns; a shape
    error when `len(X)` is not the number of rows -/
def assignAndPosCols (m : Mat) (x v : List Int) : Option Mat :=
  if v.length = 0 then some m
  else if v.length ≤ m.ncols ∧ x.length = m.rows.length then
    some { ncols := m.ncols, rows := (m.rows.zip x).map fun (row, xi) => v.map (andPos xi) ++ row.drop v.length }
  else none

/-- `a == b` for two 1-D arrays of the same length (as an integer mask after `.astype(np.int64)`) -/
def eqMask (a b : List Int) : Option (List Int) :=
  if a.length = b.length then some (List.zipWith (fun x y => if x = y then (1 : Int) else 0) a b) else none

/-- `np.mean(v)` of a non-empty integer vector, exactly (the mean of an empty array is NaN with a warning: `none`) -/
def meanQ (v : List Int) : Option Rat :=
  if v.length = 0 then none else some (((v.foldl (· + ·) 0 : Int) : Rat) / (v.length : Rat))

end TFV.Np
