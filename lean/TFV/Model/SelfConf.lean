/-
  TFV.Model.SelfConf — operator self-configuration (C14):
  `optimizers/_selfcga.py` (_get_new_proba, _find_fittest_operator, _choice_operators, _adapt)
  and `optimizers/_pdpga.py` (_culc_r_i, _get_new_proba_pdp, _adapt). Operators are indices into
  the sorted list of configured names. Exact arithmetic on `Rat`. Core Lean only.
-/
namespace TFV.SelfConf

def clip (lo hi x : Rat) : Rat := if x < lo then lo else if hi < x then hi else x

/-- `_get_new_proba(proba_dict, operator, threshold)`:
    winner += K/iters; all -= K/(z·iters); clip to [thr, 1]; renormalise -/
def bumped (p : List Rat) (winner : Nat) (K : Rat) (iters : Nat) : List Rat :=
  p.mapIdx fun i x => (if i = winner then x + K / (iters : Rat) else x) - K / ((p.length : Rat) * (iters : Rat))

def clipped (p : List Rat) (winner : Nat) (K : Rat) (iters : Nat) (thr : Rat) : List Rat :=
  (bumped p winner K iters).map (clip thr 1)

def newProba (p : List Rat) (winner : Nat) (K : Rat) (iters : Nat) (thr : Rat) : List Rat :=
  let c := clipped p winner K iters thr
  c.map (· / c.sum)

/-- fitness values of the individuals created by operator `k` -/
def group (ops : List Nat) (fit : List Rat) (k : Nat) : List Rat :=
  ((ops.zip fit).filter fun (o, _) => o == k).map (·.2)

def meanOf (g : List Rat) : Rat := g.sum / (g.length : Rat)

/-- `_find_fittest_operator`: among the operators that were used (sorted keys), the first one
    with the greatest mean offspring fitness -/
def fittestAux (ops : List Nat) (fit : List Rat) : List Nat → Option (Nat × Rat) → Option (Nat × Rat)
  | [], best => best
  | k :: ks, best =>
    let g := group ops fit k
    if g.isEmpty then fittestAux ops fit ks best
    else
      let m := meanOf g
      match best with
      | none => fittestAux ops fit ks (some (k, m))
      | some (bk, bm) => if bm < m then fittestAux ops fit ks (some (k, m)) else fittestAux ops fit ks (some (bk, bm))

def fittestOperator (nOps : Nat) (ops : List Nat) (fit : List Rat) : Nat :=
  match fittestAux ops fit (List.range nOps) none with
  | some (k, _) => k
  | none => 0

/-- `_choice_operators`: one operator per uniform draw, through the cumulative distribution
    (first index with `u * total ≤ cum[index]`) -/
def drawAux (v : Rat) : Rat → List Rat → Nat
  | _, [] => 0
  | acc, x :: xs => if v ≤ acc + x then 0 else 1 + drawAux v (acc + x) xs

def drawOp (p : List Rat) (u : Rat) : Nat :=
  let k := drawAux (u * p.sum) 0 p
  if k < p.length then k else p.length - 1

def chooseOperators (p : List Rat) (us : List Rat) : List Nat := us.map (drawOp p)

/-- SelfCGA `_adapt` for one operator kind: the new distribution and the operators of the
    next generation (drawn from the NEW distribution) -/
def adaptSelfC (p : List Rat) (ops : List Nat) (fit : List Rat) (K : Rat) (iters : Nat) (thr : Rat)
    (us : List Rat) : List Rat × List Nat :=
  let p' := newProba p (fittestOperator p.length ops fit) K iters thr
  (p', chooseOperators p' us)

/-! ### PDP -/

/-- `(successes² + 1) / (uses + 1)` for a used operator, 0 for an unused one -/
def rValue (ops : List Nat) (succ : List Bool) (k : Nat) : Rat :=
  let g := ((ops.zip succ).filter fun (o, _) => o == k).map (·.2)
  if g.isEmpty then 0
  else
    let s : Nat := (g.filter id).length
    ((s * s + 1 : Nat) : Rat) / ((g.length + 1 : Nat) : Rat)

/-- `_get_new_proba_pdp`: `thr + r_k · (1 - n·thr) / Σ r` -/
def pdpProba (n : Nat) (ops : List Nat) (succ : List Bool) (thr : Rat) : List Rat :=
  let r := (List.range n).map (rValue ops succ)
  r.map fun rk => thr + rk * ((1 - (n : Rat) * thr) / r.sum)

/-- `success_i = previous_fitness_i < fitness_i` -/
def successes (prev fit : List Rat) : List Bool := List.zipWith (fun a b => decide (a < b)) prev fit

/-- PDPGA `_adapt` for one operator kind, with the re-draw of the next generation's operators -/
def adaptPDP (n : Nat) (ops : List Nat) (prev fit : List Rat) (thr : Rat) (us : List Rat) :
    List Rat × List Nat :=
  let p' := pdpProba n ops (successes prev fit) thr
  (p', chooseOperators p' us)

end TFV.SelfConf
