/-
  TFV.Model.Split — `EvolutionaryAlgorithm._get_n_jobs`, `_split_population` and the reassembly
  of chunk results (C16). Core Lean only.
-/
namespace TFV.Split

/-- `_get_n_jobs(n_jobs)`; `none` = ValueError (n_jobs == 0). Negative requests count back from
    the number of CPUs, and every request is capped by the population size. -/
def normJobs (n : Int) (cpu pop : Nat) : Option Nat :=
  if n < 0 then some (min (max (cpu + 1 + n).toNat 1) pop)
  else if n = 0 then none
  else if n > pop then some pop
  else some n.toNat

/-- `np.linspace(0, pop, n+1, dtype=int64)`: the real-valued points `r i` truncated -/
def cuts (r : Nat → Rat) (n : Nat) : List Nat :=
  (List.range (n + 1)).map fun i => (r i).floor.toNat

/-- the ideal linspace points `i * p / n` -/
def ideal (p n : Nat) (i : Nat) : Rat := (i : Rat) * (p : Rat) / (n : Rat)

/-- `np.split(xs, inner)`: pieces `xs[:i0], xs[i0:i1], …, xs[ik:]` -/
def npSplitFrom {α : Type} (xs : List α) (start : Nat) : List Nat → List (List α)
  | [] => [xs.drop start]
  | i :: is => ((xs.take i).drop start) :: npSplitFrom xs i is

def npSplit {α : Type} (xs : List α) (inner : List Nat) : List (List α) := npSplitFrom xs 0 inner

/-- `_split_population`: `indexes[1:-1]` of the cut points -/
def inner (cs : List Nat) : List Nat := (cs.drop 1).dropLast

def split {α : Type} (xs : List α) (cs : List Nat) : List (List α) := npSplit xs (inner cs)

/-- reassembly: chunk results arrive as (chunk index, values) in ANY order and are placed by
    chunk index (`joblib.Parallel` returns results in submission order; `np.concatenate`). -/
def assemble {β : Type} (done : List (Nat × List β)) (n : Nat) : List β :=
  (List.range n).flatMap fun i =>
    match done.find? (fun r => r.1 == i) with
    | some r => r.2
    | none => []

/-- the indexed results of a row-wise function `g` on the chunks -/
def results {α β : Type} (g : α → β) (chunks : List (List α)) : List (Nat × List β) :=
  (List.range chunks.length).zip (chunks.map (List.map g))

end TFV.Split

namespace TFV.Split

/-- `_get_fitness`: the objective is applied to the whole population (serial) or chunk by chunk
    (`n_jobs > 1`), the values are concatenated in chunk order, and THEN the sign is applied:
    `fitness = sign * value`, one point for both branches. `calls` is `len(value)`. -/
def getFitness {α : Type} (parallel : Bool) (minimization : Bool) (f : α → Int) (pop : List α)
    (cs : List Nat) : List Int × Nat :=
  let value : List Int := if parallel then ((split pop cs).map (List.map f)).flatten else pop.map f
  (value.map fun v => if minimization then -v else v, value.length)

end TFV.Split
