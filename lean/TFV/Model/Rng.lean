/-
  TFV.Model.Rng — the seeding discipline of `utils/random.py` and `EvolutionaryAlgorithm.fit`
  (C04).  numba keeps two generator states (the `random` module stream and the `np.random`
  stream); `check_random_state(seed)` overwrites BOTH with the seed key before anything is drawn,
  and every stochastic primitive of the library is a state transformer on these two streams.
  The generators themselves (Mersenne Twister, samplers) are parameters.  Core Lean only.
-/
namespace TFV.Rng

/-- the two numba generator states -/
structure Streams where
  py : Nat
  np : Nat
deriving DecidableEq, Repr

/-- a generator: state ↦ (next state, output) -/
abbrev Gen := Nat → Nat × Nat

/-- a stochastic computation: draws from either stream, then continues -/
inductive Prog (α : Type) where
  | ret (a : α)
  | drawPy (k : Nat → Prog α)
  | drawNp (k : Nat → Prog α)

/-- run with fuel (a program that draws more than `fuel` times returns `none`) -/
def run {α : Type} (gPy gNp : Gen) : Nat → Prog α → Streams → Option (α × Streams)
  | _, .ret a, σ => some (a, σ)
  | 0, _, _ => none
  | f + 1, .drawPy k, σ => let (s, v) := gPy σ.py; run gPy gNp f (k v) { σ with py := s }
  | f + 1, .drawNp k, σ => let (s, v) := gNp σ.np; run gPy gNp f (k v) { σ with np := s }

/-- `numba_seed(key)`: both streams are initialised from the key -/
def seedBoth (init : Nat → Nat) (key : Nat) : Streams := { py := init key, np := init key }

/-- the key `check_random_state` derives: `RandomState(seed).get_state()[1][0]` for an int,
    `seed.get_state()[1][0]` for a RandomState object whose first state word is `w` -/
inductive Seed where
  | int (s : Nat)
  | state (w : Nat)

def seedKey (firstWord : Nat → Nat) : Seed → Nat
  | .int s => firstWord s
  | .state w => w

/-- `fit()` with a random_state: seed both streams, then run the body -/
def fit {α : Type} (gPy gNp : Gen) (init firstWord : Nat → Nat) (fuel : Nat) (body : Prog α)
    (seed : Seed) (_prior : Streams) : Option (α × Streams) :=
  run gPy gNp fuel body (seedBoth init (seedKey firstWord seed))

/-- `fit()` with random_state=None: nothing is seeded, the body continues the prior streams -/
def fitUnseeded {α : Type} (gPy gNp : Gen) (fuel : Nat) (body : Prog α) (prior : Streams) :
    Option (α × Streams) :=
  run gPy gNp fuel body prior

/-- one random-number call site found in the source (regenerated on every run) -/
structure Site where
  file : String
  func : String
  njit : Bool          -- the enclosing function is numba-compiled (draws from the seeded numba streams)
  generator : String   -- "random" | "np.random"
  allowed : Bool       -- whitelisted Python-level site (documented benchmark noise, check_random_state)
deriving Repr, DecidableEq

/-- the discipline: every site is on a seeded numba stream or whitelisted -/
def sitesOk (sites : List Site) : Bool := sites.all fun s => s.njit || s.allowed

end TFV.Rng
