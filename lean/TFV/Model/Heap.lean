/-
  TFV.Model.Heap — a minimal heap of mutable arrays, to state the aliasing clauses of C01 / C17:
  "the reported triple is a private copy that later in-place population updates cannot change",
  "each statistics entry is a snapshot that later generations do not alter", "the optimizer never
  modifies the caller's init_population", "objects returned by get_fittest() can be changed by the
  caller without affecting the optimizer's record".  numpy arrays are heap cells; `x.copy()`
  allocates a fresh cell; `a[i] = v` writes in place.  Core Lean only.
-/
namespace TFV.Heap

abbrev Ref := Nat

structure Heap (α : Type) where
  cells : List (List α)
deriving Repr

variable {α : Type}

def Heap.get (h : Heap α) (r : Ref) : List α := h.cells.getD r []

/-- allocate a fresh array -/
def Heap.alloc (h : Heap α) (a : List α) : Heap α × Ref := ({ cells := h.cells ++ [a] }, h.cells.length)

/-- `x.copy()` -/
def Heap.copy (h : Heap α) (r : Ref) : Heap α × Ref := h.alloc (h.get r)

/-- `x[i] = v` in place -/
def Heap.writeAt (h : Heap α) (r : Ref) (i : Nat) (v : α) : Heap α :=
  { cells := h.cells.set r ((h.get r).set i v) }

structure Write (α : Type) where
  ref : Ref
  idx : Nat
  val : α

def Heap.writes (h : Heap α) (ws : List (Write α)) : Heap α :=
  ws.foldl (fun h w => h.writeAt w.ref w.idx w.val) h

/-- `TheFittest._replace` / `Statistics._update` with the copy discipline: store a copy -/
def recordCopy (h : Heap α) (src : Ref) : Heap α × Ref := h.copy src

/-- the discipline the code must NOT follow: store the reference itself -/
def recordAlias (h : Heap α) (src : Ref) : Heap α × Ref := (h, src)

end TFV.Heap
