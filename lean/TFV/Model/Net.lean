/-
  TFV.Model.Net — feed-forward nets (`base/_net.py`, `utils/__init__.py` forward/forward2d,
  `base/_gpnn.py` genotype_to_phenotype_tree, `base/_mlp.py` _defitne_net) for C12 and C13.
  Python sets are sorted duplicate-free lists. Weights / activations are parameters, values are
  `Rat` (the implementation's doubles are compared at 1e-9 by the harness, which evaluates the
  same schedule in floating point). Core Lean only.
-/
namespace TFV.Net

/-! ### finite sets of node ids -/

def norm (l : List Nat) : List Nat := (l.mergeSort (fun a b => decide (a ≤ b))).eraseDups
def union (a b : List Nat) : List Nat := norm (a ++ b)
def diff (a b : List Nat) : List Nat := a.filter fun x => !b.contains x
def subset (a b : List Nat) : Bool := a.all fun x => b.contains x

/-! ### the Net structure -/

structure Net where
  inputs : List Nat := []
  hidden : List (List Nat) := []
  outputs : List Nat := []
  conns : List (Nat × Nat) := []          -- rows (from, to); one weight per row
  activs : List (Nat × Nat) := []         -- node ↦ activation code (dict, later entries win)
deriving Repr, DecidableEq

def Net.hiddens (n : Net) : List Nat := norm n.hidden.flatten
def Net.activ (n : Net) (t : Nat) : Nat :=
  match n.activs.reverse.find? (fun p => p.1 == t) with
  | some p => p.2
  | none => 0
def Net.nonInputs (n : Net) : List Nat := union n.hiddens n.outputs
def Net.nodes (n : Net) : List Nat := union n.inputs n.nonInputs

/-- `_get_connect(left, right)`: the full bipartite product -/
def product (l r : List Nat) : List (Nat × Nat) := l.flatMap fun a => r.map fun b => (a, b)

/-- layer-wise union with the excess layers of the longer operand -/
def zipLayers : List (List Nat) → List (List Nat) → List (List Nat)
  | a :: as, b :: bs => union a b :: zipLayers as bs
  | [], bs => bs
  | as, [] => as

def addMain (a b : Net) : Net :=
  { inputs := union a.inputs b.inputs, hidden := zipLayers a.hidden b.hidden,
    outputs := union a.outputs b.outputs, conns := a.conns ++ b.conns, activs := a.activs ++ b.activs }

/-- the general case of `__gt__`: connect every node of `a` without outgoing connection to every
    hidden/output node of `b` that is not yet fed by a non-input node -/
def gtMain (a b : Net) : Net :=
  let from_ := diff (union a.inputs a.hiddens) (a.conns.map (·.1))
  let fedByNonInput := (b.conns.filter fun c => !b.inputs.contains c.1).map (·.2)
  let to_ := diff (union b.hiddens b.outputs) fedByNonInput
  { inputs := union a.inputs b.inputs, hidden := a.hidden ++ b.hidden,
    outputs := union a.outputs b.outputs, conns := a.conns ++ b.conns ++ product from_ to_,
    activs := a.activs ++ b.activs }

/-- `Net.__add__` with its two shortcuts -/
def add (a b : Net) : Net :=
  let i1 := a.inputs.length; let i2 := b.inputs.length
  let h1 := a.hidden.length; let h2 := b.hidden.length
  if (i1 > 0 ∧ i2 = 0) ∧ (h1 = 0 ∧ h2 > 0) then gtMain a b
  else if (i1 = 0 ∧ i2 > 0) ∧ (h1 > 0 ∧ h2 = 0) then gtMain b a
  else addMain a b

/-- `Net.__gt__` with its two shortcuts (the first one only for operands without outputs) -/
def gt (a b : Net) : Net :=
  let i1 := a.inputs.length; let i2 := b.inputs.length
  let h1 := a.hidden.length; let h2 := b.hidden.length
  if (i1 > 0 ∧ h1 = 0) ∧ (i2 > 0 ∧ h2 = 0) ∧ b.outputs.length = 0 then addMain a b
  else if (i1 = 0 ∧ h1 > 0) ∧ (i2 > 0 ∧ h2 = 0) then gtMain b a
  else gtMain a b

def sortPairs (l : List (Nat × Nat)) : List (Nat × Nat) :=
  (l.mergeSort fun p q => decide (p.1 < q.1 ∨ (p.1 = q.1 ∧ p.2 ≤ q.2))).eraseDups

/-- `_fix(inputs)`: feed every node without incoming connection from the inputs, then
    `np.unique(connects, axis=0)` -/
def fix (n : Net) (allInputs : List Nat) : Net :=
  let to_ := diff (union n.hiddens n.outputs) (n.conns.map (·.2))
  let n' :=
    if to_.length > 0 then
      let ins := if n.inputs.length = 0 then allInputs else n.inputs
      { n with inputs := ins, conns := n.conns ++ product ins to_ }
    else n
  { n' with conns := sortPairs n'.conns }

/-! ### GP encoding -/

inductive NSym where
  | inp (vars : List Nat)          -- input block terminal
  | hid (size activ : Nat)         -- hidden block (ephemeral constant)
  | plus
  | gtr
deriving Repr, DecidableEq

def NSym.arity : NSym → Nat
  | .plus => 2 | .gtr => 2 | _ => 0

/-- one step of the reversed stack pass of `genotype_to_phenotype_tree`; state = (stack, next id) -/
def decodeStep (st : List Net × Nat) (s : NSym) : List Net × Nat :=
  match s, st with
  | .inp vars, (stack, n) => ({ inputs := norm vars } :: stack, n)
  | .hid size activ, (stack, n) =>
    let ids := (List.range size).map (· + n)
    ({ hidden := [ids], activs := ids.map fun i => (i, activ) } :: stack, n + size)
  | .plus, (x :: y :: stack, n) => (add x y :: stack, n)
  | .gtr, (x :: y :: stack, n) => (gt x y :: stack, n)
  | _, st => st

/-- `genotype_to_phenotype_tree(tree, n_variables, n_outputs, output_activation, offset)` -/
def decode (l : List NSym) (nVars nOut outAct : Nat) : Option Net :=
  let (stack, n) := l.reverse.foldl decodeStep ([], nVars)
  match stack with
  | top :: _ =>
    let outIds := (List.range nOut).map (· + n)
    let o : Net := { outputs := outIds, activs := outIds.map fun i => (i, outAct) }
    some (fix (gt top o) (List.range nVars))
  | [] => none

/-! ### MLP builder -/

/-- `BaseMLPEA._defitne_net(n_inputs, n_outputs)`; `nIn` counts the bias column when offset -/
def defineNetAux (offset : Bool) (act nIn : Nat) : List Nat → Net → Nat → Net × Nat
  | [], net, e => (net, e)
  | sz :: rest, net, e =>
    let ids := (List.range sz).map (· + e)
    let h : Net := { hidden := [ids], activs := ids.map fun i => (i, act) }
    let layer := if offset then gt { inputs := [nIn - 1] } h else h
    defineNetAux offset act nIn rest (gt net layer) (e + sz)

def defineNet (offset : Bool) (act outAct nIn nOut : Nat) (hiddenLayers : List Nat) : Net :=
  let (net, e) := defineNetAux offset act nIn hiddenLayers { inputs := List.range nIn } nIn
  let ids := (List.range nOut).map (· + e)
  let o : Net := { outputs := ids, activs := ids.map fun i => (i, outAct) }
  let layer := if offset then gt { inputs := [nIn - 1] } o else o
  gt net layer

/-! ### validity of a decoded net -/

/-- layer index: inputs 0, hidden block j ↦ j+1, outputs ↦ number of blocks + 1 -/
def Net.layerOf (n : Net) (x : Nat) : Nat :=
  if n.outputs.contains x then n.hidden.length + 1
  else match n.hidden.findIdx? (fun l => l.contains x) with
    | some j => j + 1
    | none => 0

def reaches (n : Net) : Nat → Nat → Bool
  | 0, x => n.outputs.contains x
  | fuel + 1, x => n.outputs.contains x || (n.conns.any fun c => c.1 == x && reaches n fuel c.2)

/-- the decidable validity certificate of C13 -/
def validNet (n : Net) : Bool :=
  -- connections unique
  n.conns.eraseDups.length == n.conns.length &&
  -- endpoints are nodes; sources are inputs or hidden; targets are hidden or outputs
  (n.conns.all fun c => (n.inputs.contains c.1 || n.hiddens.contains c.1) &&
                        (n.hiddens.contains c.2 || n.outputs.contains c.2)) &&
  -- every edge strictly increases the layer index (hence acyclic)
  (n.conns.all fun c => n.layerOf c.1 < n.layerOf c.2) &&
  -- every hidden and output node has an incoming edge
  (n.nonInputs.all fun t => n.conns.any fun c => c.2 == t) &&
  -- every hidden node reaches an output
  (n.hiddens.all fun h => reaches n (n.hidden.length + 1) h) &&
  -- an activation for every non-input node
  (n.nonInputs.all fun t => n.activs.any fun p => p.1 == t) &&
  -- inputs, hidden blocks and outputs are pairwise disjoint
  (n.inputs.all fun i => !n.nonInputs.contains i) && (n.hiddens.all fun h => !n.outputs.contains h)

/-! ### evaluation order (`_get_order`) -/

/-- one group of the schedule: targets sharing the same sorted source tuple.
    `wids[j][k]` = index of the connection `srcs[k] → dsts[j]` -/
structure Group where
  srcs : List Nat
  dsts : List Nat
  wids : List (List Nat)
deriving Repr, DecidableEq

def insertSorted (p : Nat × Nat) : List (Nat × Nat) → List (Nat × Nat)
  | [] => [p]
  | q :: qs => if p.1 ≤ q.1 then p :: q :: qs else q :: insertSorted p qs

/-- sources (with connection indices) of target `t`, sorted by source -/
def sourcesOf (conns : List (Nat × Nat)) (t : Nat) : List (Nat × Nat) :=
  ((List.range conns.length).zip conns).foldr
    (fun (ic : Nat × (Nat × Nat)) acc => if ic.2.2 == t then insertSorted (ic.2.1, ic.1) acc else acc) []

/-- targets grouped by identical sorted source tuple, groups in order of first appearance when
    the targets are visited in ascending order (dict insertion order) -/
def groupsOf (conns : List (Nat × Nat)) : List Group :=
  let targets := norm (conns.map (·.2))
  targets.foldl (fun (gs : List Group) t =>
    let sw := sourcesOf conns t
    let key := sw.map (·.1)
    let w := sw.map (·.2)
    if gs.any (fun g => g.srcs == key) then
      gs.map fun g => if g.srcs == key then { g with dsts := g.dsts ++ [t], wids := g.wids ++ [w] } else g
    else gs ++ [{ srcs := key, dsts := [t], wids := [w] }]) []

/-- one `for from_i, to_i in pairs.items()` pass -/
def orderPass (gs : List Group) (done_ : List Nat) (sched : List Group) : List Nat × List Group :=
  gs.foldl (fun (st : List Nat × List Group) g =>
    if subset g.srcs st.1 && !subset g.dsts st.1 then (union st.1 g.dsts, st.2 ++ [g]) else st) (done_, sched)

/-- the `while calculated != purpose` loop, with fuel -/
def orderLoop (gs : List Group) (purpose : List Nat) : Nat → List Nat → List Group → Option (List Group)
  | 0, done_, sched => if done_ == purpose then some sched else none
  | fuel + 1, done_, sched =>
    if done_ == purpose then some sched
    else
      let (done_', sched') := orderPass gs done_ sched
      orderLoop gs purpose fuel done_' sched'

/-- `_get_order`: `none` = the loop would not terminate within |nodes| + 1 passes -/
def getOrder (n : Net) : Option (List Group) :=
  orderLoop (groupsOf n.conns) n.nodes (n.nodes.length + 1) (norm n.inputs) []

/-! ### forward pass (generic in the scalar type: `Rat` in the theorems, `Float` in the driver) -/

section Forward
variable {α : Type} [Add α] [Mul α] [Zero α]

def sumR (l : List α) : α := l.foldr (· + ·) 0

/-- `np.dot(nodes[from].T, weights_i.T)` for target j of a group -/
def preActGroup (w : List α) (v : Nat → α) (g : Group) (j : Nat) : α :=
  sumR ((g.srcs.zip (g.wids.getD j [])).map fun (s, wi) => v s * w.getD wi 0)

/-- run one group: pre-activations of all its targets from the current buffer, then the
    activations — pointwise codes per node, the joint code 5 (softmax) over the code-5 nodes OF
    THIS GROUP -/
def runGroup (n : Net) (act : Nat → α → α) (softmax : List α → List α) (w : List α)
    (v : Nat → α) (g : Group) : Nat → α :=
  let pre : List (Nat × α) := (List.range g.dsts.length).map fun j => (g.dsts.getD j 0, preActGroup w v g j)
  let smNodes := pre.filter fun p => n.activ p.1 == 5
  let smVals := softmax (smNodes.map (·.2))
  let smOut := (smNodes.map (·.1)).zip smVals
  fun x =>
    match pre.find? (fun p => p.1 == x) with
    | none => v x
    | some p =>
      if n.activ x == 5 then
        match smOut.find? (fun q => q.1 == x) with
        | some q => q.2
        | none => p.2
      else act (n.activ x) p.2

/-- `forward(weights, nodes, …)`: all groups in schedule order on the node buffer -/
def runSchedule (n : Net) (act : Nat → α → α) (softmax : List α → List α) (w : List α)
    (sch : List Group) (v : Nat → α) : Nat → α :=
  sch.foldl (runGroup n act softmax w) v

/-- `forward2d`: the node buffer is allocated once, the inputs are written once, and the buffer
    is REUSED across the batch of weight vectors -/
def forwardBatchAux (n : Net) (act : Nat → α → α) (softmax : List α → List α)
    (sch : List Group) : (Nat → α) → List (List α) → List (List α)
  | _, [] => []
  | v, w :: ws =>
    let v' := runSchedule n act softmax w sch v
    n.outputs.map v' :: forwardBatchAux n act softmax sch v' ws

def forwardBatch (n : Net) (act : Nat → α → α) (softmax : List α → List α)
    (sch : List Group) (x : Nat → α) (junk : Nat → α) (ws : List (List α)) : List (List α) :=
  forwardBatchAux n act softmax sch (fun i => if n.inputs.contains i then x i else junk i) ws

/-! ### reference semantics of the graph -/

/-- weighted sum over ALL connections into `t` (parallel duplicates add) -/
def preAct (n : Net) (w : List α) (v : Nat → α) (t : Nat) : α :=
  sumR (((List.range n.conns.length).zip n.conns).map fun (i, c) =>
    if c.2 == t then v c.1 * w.getD i 0 else 0)

end Forward

/-- the decidable schedule certificate -/
def validSchedule (n : Net) (sch : List Group) : Bool :=
  -- every non-input node is computed by exactly one group
  (n.nonInputs.all fun t => (sch.filter fun g => g.dsts.contains t).length == 1) &&
  (sch.all fun g => g.dsts.eraseDups.length == g.dsts.length && g.wids.length == g.dsts.length &&
                    g.dsts.all fun t => n.nonInputs.contains t) &&
  -- the recorded (source, weight index) pairs of each target are exactly its connections
  (sch.all fun g => (List.range g.dsts.length).all fun j =>
      let t := g.dsts.getD j 0
      let rec_ := (g.srcs.zip (g.wids.getD j []))
      (g.wids.getD j []).length == g.srcs.length &&
      (rec_.map (·.2)).eraseDups.length == rec_.length &&
      (rec_.all fun (s, wi) => n.conns.getD wi (0, 0) == (s, t) && wi < n.conns.length) &&
      (((List.range n.conns.length).zip n.conns).all fun (i, c) => c.2 != t || rec_.contains (c.1, i))) &&
  -- every source is an input or computed by an EARLIER group
  ((List.range sch.length).all fun gi =>
      (sch.getD gi ⟨[], [], []⟩).srcs.all fun s =>
        n.inputs.contains s || ((sch.take gi).any fun g' => g'.dsts.contains s))

/-- all softmax nodes sit in one group -/
def softmaxTogether (n : Net) (sch : List Group) : Bool :=
  sch.all fun g =>
    !(g.dsts.any fun t => n.activ t == 5) ||
      (n.nonInputs.all fun t => n.activ t != 5 || g.dsts.contains t)

/-! ### specifications used by the C13 statements -/

/-- prefix-expression well-formedness of an arity list (as `TFV.Tree.wfAux`) -/
def wfArity : Nat → List Nat → Bool
  | 0, [] => true
  | 0, _ :: _ => false
  | _ + 1, [] => false
  | p + 1, a :: rest => wfArity (p + a) rest

/-- the layered architecture the MLP builder is asked for: node ids are allocated layer by
    layer after the `nIn` inputs (the last input is the bias column when `offset`) -/
def mlpLayers (nIn nOut : Nat) (hs : List Nat) : List (List Nat) :=
  let sizes := hs ++ [nOut]
  (sizes.foldl (fun (acc : List (List Nat) × Nat) sz =>
      (acc.1 ++ [(List.range sz).map (· + acc.2)], acc.2 + sz)) ([List.range nIn], nIn)).1

def consecutive : List (List Nat) → List (Nat × Nat)
  | a :: b :: rest => product a b ++ consecutive (b :: rest)
  | _ => []

def mlpSpec (offset : Bool) (nIn nOut : Nat) (hs : List Nat) : List (Nat × Nat) :=
  let ls := mlpLayers nIn nOut hs
  consecutive ls ++ (if offset then (ls.drop 1).flatMap fun l => product [nIn - 1] l else [])

/-- all outputs have the same set of sources (so `_get_order` puts them in one group) -/
def shareSources (n : Net) : Bool :=
  match n.outputs with
  | [] => true
  | o :: os => os.all fun o' =>
      norm ((n.conns.filter fun c => c.2 == o').map (·.1)) == norm ((n.conns.filter fun c => c.2 == o).map (·.1))

end TFV.Net
