/-
  TFV.Model.Estim — the logical core of the scikit-learn style estimators (C18):
  label coding (`LabelEncoder`: classes = sorted distinct labels), arg-max prediction, the sigmoid
  pair of the GP classifier, the reserved optimizer arguments (`check_optimizer_args`), the bias
  column. Labels cross as order keys (`Nat`). Core Lean only.
-/
namespace TFV.Estim

/-- insertion into a sorted duplicate-free list -/
def insertLabel (l : Nat) : List Nat → List Nat
  | [] => [l]
  | c :: cs => if l < c then l :: c :: cs else if l = c then c :: cs else c :: insertLabel l cs

/-- `LabelEncoder.fit`: the sorted distinct labels -/
def classes (y : List Nat) : List Nat := y.foldr insertLabel []

/-- `LabelEncoder.transform` of one label -/
def encode (cs : List Nat) (l : Nat) : Option Nat := cs.idxOf? l

/-- `LabelEncoder.inverse_transform` of one index -/
def decode (cs : List Nat) (i : Nat) : Option Nat := cs[i]?

/-- `np.argmax` of one probability row (first maximum); values as order keys -/
def argmaxAux : Int → Nat → Nat → List Int → Nat
  | _, bi, _, [] => bi
  | b, bi, i, x :: xs => if b < x then argmaxAux x i (i + 1) xs else argmaxAux b bi (i + 1) xs

def argmax : List Int → Nat
  | [] => 0
  | x :: xs => argmaxAux x 0 1 xs

/-- `predict`: the original class label of the arg-max column -/
def predictLabel (cs : List Nat) (row : List Int) : Option Nat := decode cs (argmax row)

/-- GP classifier: `proba = [1 - p, p]` with `p = sigmoid(tree output)` -/
def pair (p : Rat) : List Rat := [1 - p, p]

/-- `check_optimizer_args`: `true` = accepted -/
def checkArgs (reserved : List String) (args : List String) : Bool := args.all fun a => !reserved.contains a

/-- the bias column appended when `offset` is on -/
def withBias (offset : Bool) (row : List Rat) : List Rat := if offset then row ++ [1] else row

/-- `fit` hands `iters = n_iter` and `pop_size` to the optimizer: the evaluation budget -/
def budget (nIter popSize : Nat) : Nat := nIter * popSize

end TFV.Estim
