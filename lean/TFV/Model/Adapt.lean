/-
  TFV.Model.Adapt — adaptive control parameters (C15):
  `optimizers/_shade.py` (randc01, randn01, lehmer_mean, _update_u_F, _update_u_CR, memory ring,
  _append_archive), `optimizers/_shaga.py` (_randc, _randn, _update_u), `optimizers/_jde.py`
  (_get_mutate_F, _get_mutate_CR, acceptance). Random draws are explicit. `Rat` arithmetic.
  Core Lean only.
-/
namespace TFV.Adapt

/-! ### truncated draws -/

/-- `randc01(u)`: redraw while the Cauchy value is ≤ 0, then cap at 1. `draws` is the stream of
    Cauchy values; `none` = stream exhausted -/
def randc01 : List Rat → Option Rat
  | [] => none
  | v :: vs => if v ≤ 0 then randc01 vs else some (if 1 < v then 1 else v)

/-- `randn01(u)`: one normal value clamped to [0, 1] -/
def randn01 (v : Rat) : Rat := if v < 0 then 0 else if 1 < v then 1 else v

/-- SHAGA `_randc(u, scale)`: redraw while `value ≤ 0 or value > 5/str_len` -/
def randcMR (strLen : Nat) : List Rat → Option Rat
  | [] => none
  | v :: vs => if v ≤ 0 ∨ (5 : Rat) / (strLen : Rat) < v then randcMR strLen vs else some v

/-- SHAGA `_randn(u, scale)`: one Cauchy value clamped to [0, 1] -/
def randnCR (v : Rat) : Rat := if v < 0 then 0 else if 1 < v then 1 else v

/-! ### means -/

def dot (a b : List Rat) : Rat := (List.zipWith (· * ·) a b).sum

/-- `lehmer_mean(x, power=2, weight)` = Σ w x² / Σ w x, and 0 when the denominator is 0 -/
def lehmer (x w : List Rat) : Rat :=
  let down := dot w x
  if down = 0 then 0 else dot w (x.map fun a => a * a) / down

/-- unweighted: `lehmer_mean(S_F)` -/
def lehmer1 (x : List Rat) : Rat := lehmer x (x.map fun _ => 1)

/-- improvement weights `df / Σ df` -/
def weights (df : List Rat) : List Rat := df.map (· / df.sum)

/-- SHADE `_update_u_F` -/
def updateF (u : Rat) (S : List Rat) : Rat := if S.isEmpty then u else lehmer1 S

/-- SHADE `_update_u_CR`: improvement-weighted arithmetic mean -/
def updateCR (u : Rat) (S df : List Rat) : Rat :=
  if S.isEmpty then u else if 0 < df.sum then dot (weights df) S else u

/-- SHAGA `_update_u` (both MR and CR): improvement-weighted Lehmer mean -/
def updateU (u : Rat) (S df : List Rat) : Rat :=
  if S.isEmpty then u else if 0 < df.sum then lehmer S (weights df) else u

/-! ### success-history memory (ring buffer of length H = pop_size) -/

structure Mem where
  H : List Rat
  k : Nat
deriving Repr, DecidableEq

/-- one generation: `H[next_k] = upd(H[k]); k = next_k` -/
def Mem.step (m : Mem) (upd : Rat → Rat) : Mem :=
  let nk := if m.k + 1 = m.H.length then 0 else m.k + 1
  { H := m.H.set nk (upd (m.H.getD m.k 0)), k := nk }

/-! ### SHADE archive -/

/-- `_append_archive`: append the replaced parents; if longer than pop_size, shuffle and
    truncate. `shuffled` is what the Sattolo shuffle returned (any permutation). -/
def appendArchive {α : Type} (archive worse : List α) (popSize : Nat) (shuffle : List α → List α) : List α :=
  let a := archive ++ worse
  if popSize < a.length then (shuffle a).take popSize else a

/-! ### jDE -/

/-- `_get_mutate_F`: regenerate with probability t_F (`u1 < t_F`): `F_min + u2 * F_max` -/
def jdeF (F Fmin Fmax tF u1 u2 : Rat) : Rat := if u1 < tF then Fmin + u2 * Fmax else F

/-- `_get_mutate_CR` -/
def jdeCR (CR tCR u1 u2 : Rat) : Rat := if u1 < tCR then u2 else CR

/-- an individual's parameters change only when its trial is accepted -/
def jdeAccept (old new : Rat) (accepted : Bool) : Rat := if accepted then new else old

end TFV.Adapt
