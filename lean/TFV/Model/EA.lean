/-
  TFV.Model.EA — executable model of `thefittest.base._ea` (`TheFittest`, `Statistics`,
  `EvolutionaryAlgorithm.fit`) and of the two ways the ten optimizers plug into it:

  * generational  (GeneticAlgorithm, SelfCGA, PDPGA, GeneticProgramming, SelfCGP, PDPGP):
      `_get_new_population` builds pop_size new genotypes, `_from_population_g_to_fitness`
      evaluates them, updates the record and the statistics, writes the elite into the last slot;
  * greedy slot-wise (DifferentialEvolution, jDE, SHADE, SHAGA):
      `_get_new_population` builds pop_size trials, evaluates them, and a trial replaces its
      parent iff `trial_fit >= parent_fit`; `_from_population_g_to_fitness` then only updates the
      record / statistics and writes the elite.

  Fitness values are `Int`: the code only *compares* normalised fitness values (argmax, `>`, `>=`),
  and finite IEEE doubles (and ±inf) embed order-isomorphically into `Int` (the harness sends each
  double as its order key, with key (-x) = - key x).  Core Lean only (no Mathlib) so that the
  driver can run this file.
-/
namespace TFV.EA

/-- one evaluated individual: genotype, phenotype, normalised fitness -/
structure Ind (G P : Type) where
  g : G
  ph : P
  fit : Int
deriving Repr, DecidableEq

/-- numpy `argmax`: the FIRST maximal element. `best?` is the running candidate. -/
def argmaxAux {G P : Type} : Ind G P → List (Ind G P) → Ind G P
  | b, [] => b
  | b, x :: xs => if b.fit < x.fit then argmaxAux x xs else argmaxAux b xs

def argmaxFirst {G P : Type} : List (Ind G P) → Option (Ind G P)
  | [] => none
  | x :: xs => some (argmaxAux x xs)

/-- `TheFittest`: `fit` starts at `floor` (the key of `-inf`), `best` is unset until replaced. -/
structure Rec (G P : Type) where
  best : Option (Ind G P)
  fit : Int
  noUpd : Nat
deriving Repr

/-- `TheFittest._update` -/
def Rec.update {G P : Type} (r : Rec G P) (pop : List (Ind G P)) : Rec G P :=
  match argmaxFirst pop with
  | none => r
  | some m =>
    if r.fit < m.fit then { best := some m, fit := m.fit, noUpd := 0 }
    else { r with noUpd := r.noUpd + 1 }

/-- one entry of `Statistics` (the generic keys written by `_update_data`) -/
structure StatEntry (G P : Type) where
  pop : List (Ind G P)
  maxInd : Option (Ind G P)
deriving Repr

structure Cfg (G P : Type) where
  iters : Nat
  popSize : Nat
  elitism : Bool
  minimization : Bool
  g2p : G → P
  obj : P → Int          -- the user's objective (as order key)
  aim : Option Int       -- `none` = +inf (no optimal_value)
  noInc : Option Nat     -- no_increase_num
  keepHistory : Bool
  floor : Int            -- key of -inf, the initial record fitness

/-- the single point of sign application: `fitness = self._sign * value` -/
def Cfg.fitOf {G P : Type} (c : Cfg G P) (p : P) : Int :=
  if c.minimization then - c.obj p else c.obj p

/-- `aim = sign * optimal_value - termination_error_value` -/
def aimOf (minimization : Bool) (optimal err : Int) : Int :=
  (if minimization then - optimal else optimal) - err

structure St (G P : Type) where
  pop : List (Ind G P)        -- working population (post elitism) at the generation boundary
  rk : Rec G P
  calls : Nat                 -- `_calls`
  gens : Nat                  -- generations evaluated so far
  log : List (Ind G P)        -- ghost: every individual ever handed to the fitness function
  stats : List (StatEntry G P)
  callbacks : Nat             -- number of `on_generation` invocations
deriving Repr

def Cfg.eval {G P : Type} (c : Cfg G P) (gs : List G) : List (Ind G P) :=
  gs.map fun g => let ph := c.g2p g; { g := g, ph := ph, fit := c.fitOf ph }

/-- overwrite the last slot (`population[-1] = ...`) -/
def setLast {α : Type} : List α → α → List α
  | [], _ => []
  | [_], b => [b]
  | x :: y :: xs, b => x :: setLast (y :: xs) b

/-- `_update_data` + elitism of `_from_population_g_to_fitness` on an already evaluated population -/
def Cfg.record {G P : Type} (c : Cfg G P) (s : St G P) (pop : List (Ind G P)) : St G P :=
  let rk := s.rk.update pop
  let stats := if c.keepHistory then s.stats ++ [{ pop := pop, maxInd := argmaxFirst pop }] else s.stats
  let pop' := match c.elitism, rk.best with
    | true, some b => setLast pop b
    | _, _ => pop
  { s with pop := pop', rk := rk, stats := stats, gens := s.gens + 1 }

def St.init {G P : Type} (c : Cfg G P) : St G P :=
  { pop := [], rk := { best := none, fit := c.floor, noUpd := 0 }, calls := 0, gens := 0,
    log := [], stats := [], callbacks := 0 }

/-- generational flavour: evaluate `gs`, record. -/
def Cfg.stepGen {G P : Type} (c : Cfg G P) (s : St G P) (gs : List G) : St G P :=
  let pop := c.eval gs
  c.record { s with calls := s.calls + pop.length, log := s.log ++ pop } pop

/-- greedy replacement `mask = trial_fit >= parent_fit` -/
def merge {G P : Type} : List (Ind G P) → List (Ind G P) → List (Ind G P)
  | p :: ps, t :: ts => (if p.fit ≤ t.fit then t else p) :: merge ps ts
  | ps, [] => ps
  | [], _ => []

/-- greedy flavour: evaluate the trials `gs`, merge slot-wise, record. -/
def Cfg.stepGreedy {G P : Type} (c : Cfg G P) (s : St G P) (gs : List G) : St G P :=
  let trials := c.eval gs
  c.record { s with calls := s.calls + trials.length, log := s.log ++ trials } (merge s.pop trials)

inductive Flavour | gen | greedy
deriving DecidableEq, Repr

def Cfg.step {G P : Type} (c : Cfg G P) : Flavour → St G P → List G → St G P
  | .gen => c.stepGen
  | .greedy => c.stepGreedy

/-- `_termitation_check` -/
def Cfg.stop {G P : Type} (c : Cfg G P) (s : St G P) : Bool :=
  (match c.aim with | some a => decide (a ≤ s.rk.fit) | none => false) ||
  (match c.noInc with | some n => s.rk.noUpd == n | none => false)

/-- first generation: both flavours evaluate the initial population and record it
    (greedy: `_get_init_population` evaluates, `_from_population_g_to_fitness` records). -/
def Cfg.first {G P : Type} (c : Cfg G P) (init : List G) : St G P :=
  c.stepGen (St.init c) init

/-- the `for i in range(iters - 1)` loop; `oracle` is the variation step: any function of the
    generation number and of the current state. Returns the list of states at every generation
    boundary, first generation first. -/
def Cfg.trajFrom {G P : Type} (c : Cfg G P) (fl : Flavour) (oracle : St G P → List G) :
    Nat → St G P → List (St G P)
  | 0, s => [s]
  | n + 1, s =>
    if c.stop s then [s]
    else
      let s' := c.step fl s (oracle s)
      s :: c.trajFrom fl oracle n { s' with callbacks := s'.callbacks + 1 }

def Cfg.traj {G P : Type} (c : Cfg G P) (fl : Flavour) (init : List G) (oracle : St G P → List G) :
    List (St G P) :=
  c.trajFrom fl oracle (c.iters - 1) (c.first init)

def lastD {α : Type} : List α → α → α
  | [], d => d
  | x :: xs, _ => lastD xs x

/-- the final state of `fit()` -/
def Cfg.run {G P : Type} (c : Cfg G P) (fl : Flavour) (init : List G) (oracle : St G P → List G) :
    St G P :=
  lastD (c.traj fl init oracle) (c.first init)

/-- `get_remains_calls` -/
def Cfg.remains {G P : Type} (c : Cfg G P) (s : St G P) : Int :=
  (c.popSize * c.iters : Nat) - (s.calls : Int)

end TFV.EA
