/-
  TFV.Model.Select — selection and sampling primitives (C11):
  `utils/__init__.py`: binary_search_interval, check_for_value, argsort_k, find_pbest_id
  `utils/random.py`  : random_weighted_sample, random_sample, randint, uniform, sattolo_shuffle
  `utils/selections.py`: tournament_selection (proportional/rank = random_weighted_sample)
  `utils/transformations.py`: minmax_scale
  Order-only functions work on `Int` order keys; arithmetic ones on `Rat`. Core Lean only.
-/
namespace TFV.Select

/-! ### binary_search_interval -/

/-- the `while right - left > 1` loop, with fuel -/
def bsLoop (v : Int) (cum : List Int) : Nat → Nat → Nat → Nat
  | 0, _, right => right
  | fuel + 1, left, right =>
    if right - left > 1 then
      let mid := (left + right) / 2
      if v ≤ cum.getD mid 0 then bsLoop v cum fuel left mid else bsLoop v cum fuel mid right
    else right

/-- `binary_search_interval(value, intervals)` -/
def bsearch (v : Int) (cum : List Int) : Nat :=
  if v ≤ cum.getD 0 0 then 0 else bsLoop v cum cum.length 0 (cum.length - 1)

/-- specification: the first index whose cumulative value is ≥ v -/
def firstGe (v : Int) : List Int → Nat
  | [] => 0
  | c :: cs => if v ≤ c then 0 else 1 + firstGe v cs

/-- `np.cumsum` over exact integers (used for the weight ↔ interval statements) -/
def cumsumFrom (acc : Int) : List Int → List Int
  | [] => []
  | w :: ws => (acc + w) :: cumsumFrom (acc + w) ws

def cumsum (w : List Int) : List Int := cumsumFrom 0 w

/-! ### sampling with rejection (`random_sample(replace=False)`, `random_weighted_sample(replace=False)`) -/

/-- consume a stream of candidate indices, rejecting the ones already taken (`check_for_value`),
until `k` are collected. `none` = the stream ran out. -/
def sampleNoRepl : List Nat → Nat → List Nat → Option (List Nat)
  | _, 0, acc => some acc.reverse
  | [], _ + 1, _ => none
  | d :: ds, k + 1, acc =>
    if acc.contains d then sampleNoRepl ds (k + 1) acc else sampleNoRepl ds k (d :: acc)

/-- with replacement: the first `k` draws -/
def sampleRepl (draws : List Nat) (k : Nat) : Option (List Nat) :=
  if draws.length < k then none else some (draws.take k)

/-! ### tournament -/

/-- index (into `xs`) of the first maximum: `np.argmax` -/
def argmaxIdxAux : Int → Nat → Nat → List Int → Nat
  | _, bi, _, [] => bi
  | b, bi, i, x :: xs => if b < x then argmaxIdxAux x i (i + 1) xs else argmaxIdxAux b bi (i + 1) xs

def argmaxIdx : List Int → Nat
  | [] => 0
  | x :: xs => argmaxIdxAux x 0 1 xs

/-- one tournament: `tournament[np.argmax(fitness[tournament])]` -/
def tournament (fitness : List Int) (sample : List Nat) : Nat :=
  sample.getD (argmaxIdx (sample.map fun i => fitness.getD i 0)) 0

/-! ### randint / uniform (exact arithmetic on the uniform draw `U ∈ [0,1)`) -/

/-- `low + int(floor((high - low) * U))` -/
def randint (low high : Int) (U : Rat) : Int := low + (((high - low : Int) : Rat) * U).floor

/-- `np.random.uniform(low, high)` = `low + (high - low) * U` -/
def uniform (low high U : Rat) : Rat := low + (high - low) * U

/-- the weighted draw of `random_weighted_sample`: `roll = total * U`, then the binary search.
    Weights are integers here (exact arithmetic); the roll is scaled by `den` to stay integral:
    `U = num/den`. -/
def weightedIndex (w : List Int) (num den : Nat) : Nat :=
  bsearch (((cumsum w).getLastD 0) * num) ((cumsum w).map (· * den))

/-! ### Sattolo shuffle -/

def swap {α : Type} (l : List α) (i j : Nat) : List α :=
  match l[i]?, l[j]? with
  | some a, some b => (l.set i b).set j a
  | _, _ => l

/-- `for i in range(n-1, 0, -1): j = floor(U*i); swap(i, j)`; `js` lists the `j` for
    i = n-1, n-2, …, 1. -/
def sattoloAux {α : Type} : List α → Nat → List Nat → List α
  | l, 0, _ => l
  | l, _ + 1, [] => l
  | l, i + 1, j :: js => sattoloAux (swap l (i + 1) j) i js

def sattolo {α : Type} (l : List α) (js : List Nat) : List α := sattoloAux l (l.length - 1) js

/-- admissible choices: the k-th choice (for i = n-1-k) lies in [0, i) -/
def sattoloOk : Nat → List Nat → Bool
  | 0, _ => true
  | _ + 1, [] => false
  | i + 1, j :: js => decide (j < i + 1) && sattoloOk i js

/-! ### argsort_k / find_pbest_id (selection sort of the k largest, descending) -/

/-- position (≥ start) of the first maximum of `vals` from `start`: the inner loop
    (`max_id` initialised to `i`, updated on strict `>`). -/
def maxPosFrom (vals : List Int) (start : Nat) : Nat :=
  start + argmaxIdx (vals.drop start)

def argsortKAux : Nat → Nat → List Int → List Nat → List Nat
  | 0, _, _, idx => idx
  | k + 1, i, vals, idx =>
    let m := maxPosFrom vals i
    argsortKAux k (i + 1) (swap vals i m) (swap idx i m)

/-- `argsort_k(array, k)` — the whole permuted index array -/
def argsortK (vals : List Int) (k : Nat) : List Nat :=
  argsortKAux k 0 vals (List.range vals.length)

/-- `count = max(1, int(p * size))` with p = pn/pd -/
def pbestCount (size pn pd : Nat) : Nat := max 1 (pn * size / pd)

/-- `find_pbest_id(array, p)` -/
def pbest (vals : List Int) (pn pd : Nat) : List Nat :=
  (argsortK vals (pbestCount vals.length pn pd)).take (pbestCount vals.length pn pd)

/-! ### minmax_scale -/

def listMax : List Rat → Rat
  | [] => 0
  | x :: xs => xs.foldl max x

def listMin : List Rat → Rat
  | [] => 0
  | x :: xs => xs.foldl min x

def minmax (d : List Rat) : List Rat :=
  let mx := listMax d
  let mn := listMin d
  if mx = mn then d.map (fun _ => 1) else d.map (fun x => (x - mn) / (mx - mn))

end TFV.Select
