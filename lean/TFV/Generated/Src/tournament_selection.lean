/- GENERATED: translation FAILED (call np.random.random(tour_size)) -/
import TFV.Model.Imp
namespace TFV.Generated.Src
/-- the source of `tournament_selection` is outside the translatable subset: call np.random.random(tour_size) -/
def tournament_selection.notRecognised : Unit := ()
end TFV.Generated.Src
