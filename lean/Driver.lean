/-
  Driver — line protocol between the Python harness and the executable Lean models.
  One JSON object per input line: {"op": "<name>", ...args}; one JSON value per output line:
  {"ok": value} or {"error": msg}.  Rationals cross as [num, den]; doubles either as order keys
  (Int) or as exact rationals.   Run:  lake env lean --run Driver.lean < ops.jsonl
-/
import TFV.Drv.All
open Lean

partial def loop (h : IO.FS.Stream) (out : IO.FS.Stream) : IO Unit := do
  let line ← h.getLine
  if line.isEmpty then return ()
  let t := line.trimAscii.toString
  if t.isEmpty then loop h out else
  let res : Except String Json := do
    let j ← Json.parse t
    let op ← (← j.getObjVal? "op").getStr?
    Drv.dispatch op j
  match res with
  | .ok v => out.putStrLn (Json.mkObj [("ok", v)]).compress
  | .error e => out.putStrLn (Json.mkObj [("error", Json.str e)]).compress
  loop h out

def main : IO Unit := do
  loop (← IO.getStdin) (← IO.getStdout)
